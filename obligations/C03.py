from engine.runner import Obl

H = 'C03/bih.cc'
ASSUME = [
    'point-location half of navigation only: BIHTraverser over hand-laid trees of two shapes (inner->leaf,leaf with 2 volumes per leaf; '
    'inner->[inner->leaf,leaf],leaf with 1 volume per leaf) plus one volume with an infinite box; plane positions, axes, boxes, probe point and the '
    '"point is really inside volume v" oracle are fully symbolic',
    'builder invariant assumed (BIHBuilder::construct_tree): left plane = max upper bound of the left subtree boxes along the axis, right plane = min lower bound '
    'of the right subtree boxes; a volume contains no point outside its bounding box (C09 bounding-zone soundness)',
    'exact order semantics (real mode; only comparisons occur); probe point not exactly on a box face',
    'OrangeTrackView state machine, SimpleUnitTracker intersection / boundary crossing, nested universes and RectArrayTracker are NOT covered: the '
    'distance side rests on C12 (surface intersections) and C10 (logic evaluation) only',
]
TRUSTED = ['clang-14 -O1 lowering', 'llir/irsym real mode + z3']
R = dict(mode='real', timeout=60, validate=False, opts={'separate_asserts': True, 'xr_select': True})
OBLS = [
    Obl('C03.1/two_leaves', H, 'obl_c03_bih', 'B', 'BIHTraverser (1 inner node, 2 leaves x 2 volumes + infinite volume): a volume is returned iff the point is inside some '
        'volume; the returned volume contains it; membership evaluated only inside bounding boxes', defines=('VERIF_SHAPE=0', 'VERIF_VPL=2'), **R),
    Obl('C03.1/nested', H, 'obl_c03_bih', 'B', 'BIHTraverser (2 inner nodes, 3 leaves x 1 volume + infinite volume): same', defines=('VERIF_SHAPE=1', 'VERIF_VPL=1'), **R),
    Obl('C03.1/nested2', H, 'obl_c03_bih', 'B', 'BIHTraverser (2 inner nodes, 3 leaves x 2 volumes + infinite volume): same', defines=('VERIF_SHAPE=1', 'VERIF_VPL=2'),
        mode='real', timeout=60, validate=False, tier='thorough', opts={'separate_asserts': True, 'xr_select': True, 'max_paths': 200000}),
]
