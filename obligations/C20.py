from engine.runner import Obl

V = 'C20/vec.cc'
G = 'C20/gen.cc'
ROT = {'_ZN9celeritas6rotateIdEENS_5ArrayIT_Lm3EEERKS3_S5_': 'stub_rotate'}
SCP = {'_ZN9celeritas6detail13sincospi_implEdPdS1_': 'stub_sincospi'}
CALC = {'_ZNK9celeritas17GenericCalculatorclEd': 'stub_calc',
        '_ZN9celeritas7optical22CerenkovDndxCalculatorclENS_8QuantityINS_5units6CLightEdEE': 'stub_dndx'}
UNIT = {'_ZN9celeritas16make_unit_vectorIdLm3EEENS_5ArrayIT_XT0_EEERKS3_': 'stub_unit'}
ASSUME = [
    'REAL mode (exact arithmetic; sqrt exact; sin/cos uninterpreted with sin^2+cos^2=1 and range lemmas): algebraic claims for ALL speeds, positions, step '
    'lengths, tables and ALL values of every random draw; rounding is outside',
    'compositional: rotate / make_unit_vector / sincospi / refractive-index lookup / dN/dx are cut to recorders returning arbitrary values in the generator '
    'obligations (their contracts are C20.1/*, C20.5); the generator obligations check what is handed to them and everything else',
    'optical material: one material with a symbolic 2-knot refractive index table (n >= 1, non-decreasing); scintillation: 1 component (2 thorough)',
    'rejection loops followed for 1 extra iteration per loop (2 thorough); deeper iterations are memoryless repetitions and are counted as beyond the bound',
    'Poisson / normal sampling of the NUMBER of photons (CerenkovOffload / ScintillationOffload), and the statistical distribution are outside the claim',
    'counterexamples that depend on uninterpreted libm values are refined with true function points before they are reported (smt.refine_libm)',
]
TRUSTED = ['clang-14 -O1 lowering', 'llir/irsym real mode + z3 nlsat / cvc5']
R = dict(mode='real', timeout=120, validate=False)
GO = dict(mode='real', timeout=60, validate=False,
          opts={'separate_asserts': True, 'drop_on_bound': True, 'inproc_ms': 4000, 'max_site_forks': 1})
GT = dict(mode='real', timeout=300, validate=False, tier='thorough',
          opts={'separate_asserts': True, 'drop_on_bound': True, 'inproc_ms': 4000, 'max_site_forks': 2})

OBLS = [
    Obl('C20.1/spherical', V, 'obl_c20_from_spherical', 'B', 'from_spherical(c, phi) is a unit vector with z = c', **R),
    Obl('C20.1/unit', V, 'obl_c20_unit_vector', 'B', 'make_unit_vector(v) is a unit vector along v', **R),
    Obl('C20.1/axis', V, 'obl_c20_rotate_axis', 'B', 'rotate(e_z, rot) == rot for every unit rot (known finding F7 near the z axis)', known=['F7'], **R),
    Obl('C20.1/rotate', V, 'obl_c20_rotate', 'B', 'rotate(dir, rot) is a unit vector whose cosine with rot is dir_z (polar angle preserved)', known=['F7'],
        mode='real', timeout=900, validate=False, tier='thorough'),
    Obl('C20.5', G, 'obl_c20_dndx', 'B', 'CerenkovDndxCalculator: dN/dx >= 0 and == 0 below the threshold beta < 1/n_max', **R),
    Obl('C20.3', G, 'obl_c20_cerenkov', 'B', 'CerenkovGenerator: energy inside the table; local direction on the cone cos(theta)=1/(n(E) beta_mean) for the '
        'returned E; polarisation same azimuth at theta+pi/2; both rotated about the unit step direction; position on the step segment; time >= pre-step time',
        defines=('VERIF_CUT_CALC',), precut={**ROT, **SCP, **CALC}, **GO),
    Obl('C20.4', G, 'obl_c20_scintillation', 'B', 'ScintillationGenerator: unit direction; polarisation = normalised vector perpendicular to the direction; '
        'position on the step segment (end point for neutrals); time >= pre-step time', defines=('VERIF_NCOMP=1', 'VERIF_CUT_UNIT'), precut={**SCP, **UNIT}, **GO),
    Obl('C20.4e', G, 'obl_c20_scintillation', 'B', 'ScintillationGenerator: photon energy (from the sampled wavelength) is positive (found defect F8, fixed)',
        defines=('VERIF_NCOMP=1', 'VERIF_CUT_UNIT', 'VERIF_ENERGY'), precut={**SCP, **UNIT}, **GO),
    Obl('C20.3+', G, 'obl_c20_cerenkov', 'B', 'CerenkovGenerator, rejection loops followed twice', defines=('VERIF_CUT_CALC',), precut={**ROT, **SCP, **CALC}, **GT),
    Obl('C20.4+', G, 'obl_c20_scintillation', 'B', 'ScintillationGenerator, 2 components, loops followed twice, normalised vector non-zero',
        defines=('VERIF_NCOMP=2', 'VERIF_CUT_UNIT', 'VERIF_UNITLEN'), precut={**SCP, **UNIT}, **GT),
]
