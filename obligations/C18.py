from engine.runner import Obl

H = 'C18/algo.cc'
ASSUME = [
    'sequence lengths bounded (quick n<=4, thorough n<=5); all contents symbolic; comparators: Less<> on int, index-by-double-key lambda (SimpleUnitTracker idiom), '
    'int predicate lambdas',
    'UniformGrid: 2 <= size <= 1024, |front|,|back| <= 2^20; interpolator knot spacing >= 2^-20 (slope cannot overflow)',
    'ceil_div/LocalWorkCalculator multiplication oracle bounded to 12-bit operands (symbolic x symbolic multiply)',
]
TRUSTED = ['clang-14 -O1 lowering', 'ir2c/irsym translators (validated differentially each run)', 'CBMC 6.11 / z3 / cvc5']

def arr(oid, entry, what, unwind, n, tier, timeout=600, opts=None):
    return Obl(oid, H, entry, 'A', what + ' (all arrays of length <= %d, all contents)' % n, tier=tier, unwind=unwind, defines=('VERIF_N=%d' % n,),
               timeout=timeout, bounds='n <= %d' % n, opts=opts)

OBLS = []
for n, tier, tag in ((4, 'quick', ''), (5, 'thorough', '/n5')):
    u = n + 3
    OBLS += [
        arr('C18.1' + tag, 'obl_c18_sort_int', 'celeritas::sort(int*): output ascending, permutation of input, nothing beyond last touched', u, n, tier, 1800),
        arr('C18.1b' + tag, 'obl_c18_sort_index', 'celeritas::sort with index-by-key comparator: permutation of indices, keys ascending', u, n, tier, 1800),
        arr('C18.2' + tag, 'obl_c18_search', 'lower_bound / lower_bound_linear / upper_bound / find_sorted == linear-scan specification on sorted arrays', u, n, tier),
        arr('C18.3' + tag, 'obl_c18_partition', 'partition: split point, predicate order, multiset preserved', u, n, tier),
        arr('C18.4' + tag, 'obl_c18_scan', 'min_element (first minimum), all_of, any_of, all_adjacent vs specification', u, n, tier),
        arr('C18.8' + tag, 'obl_c18_nonuniform_find', 'NonuniformGrid::find: grid[i] <= v < grid[i+1], i+1 < size (bit-precise doubles, compare only)', u + 1, n, tier),
    ]
D4 = ('VERIF_N=4',)
OBLS += [
    Obl('C18.5', H, 'obl_c18_intmath', 'B', 'ceil_div, LocalWorkCalculator, signum, clamp, min/max on full-width ints (mul oracle: 12-bit operands)', mode='bv', defines=D4, timeout=200),
    Obl('C18.5w', H, 'obl_c18_ceildiv_fullwidth', 'B', 'ceil_div over the full 32-bit operand range vs quotient/remainder definition', mode='bv', defines=D4, timeout=200),
    Obl('C18.5f', H, 'obl_c18_fpminmax', 'B', 'FP min/max incl. one NaN operand, clamp_to_nonneg, all doubles', mode='fp', defines=D4, timeout=120),
    Obl('C18.6', H, 'obl_c18_hyperslab', 'B', 'HyperslabIndexer<3>/inverse: row-major index, in range, bijective (extents 1..8)', mode='bv', defines=D4, timeout=200),
    Obl('C18.7', H, 'obl_c18_uniform_find', 'B', 'UniformGrid::find on from_bounds grids: bin+1 < size for every front <= v < back (IEEE doubles)', mode='fp', defines=D4,
        timeout=300, known=['F1']),
    Obl('C18.9', H, 'obl_c18_interp_ends', 'B', 'LinearInterpolator reproduces the left knot exactly (IEEE doubles)', mode='fp', defines=D4, timeout=120),
]
