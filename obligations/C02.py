from engine.runner import Obl

H = 'C02/round.cc'
CUTS = {"_ZN9celeritas15OrangeTrackViewaSERKNS_19GeoTrackInitializerE": "stub_geo_init"}
STUBS = ['OrangeTrackView::operator=(GeoTrackInitializer) (BIH point location) replaced by stub_geo_init: arbitrary located volume / failure flag, '
         'documented post-state (level 0, no surface, no next step)', 'CELER_LOG / CELER_LOG_LOCAL message formatting: empty body']
ASSUME = [
    'state model: N track slots (quick 2, thorough 3), S=2 secondaries per slot, K=2N initializer capacity, E=2 events, single-level ORANGE state; '
    'all slot contents, secondaries, queued initializers and counters symbolic',
    'inductive decomposition: C02.1 (locate+remove_if+scan over all slots) establishes disjoint scan ranges; C02.2 and C02.3 are ONE executor call from an '
    'arbitrary state satisfying that post-condition (so histories of any length are covered if the stated invariant is right); the composition over slots '
    'and steps is stated, not solver-checked',
    'TrackOrder::none only (init_charge partitioning not yet covered); sequencing of ExtendFromSecondariesAction::step_impl mirrored by hand',
    'single-threaded model of atomic_add',
]
TRUSTED = ['clang-14 -O1 lowering', 'llir/irsym (validated differentially each run)', 'z3 5.1 (python API) with z3 4.8.12 / cvc5 portfolio fallback']


def mk(n, tier, tag):
    d = ('VERIF_N=%d' % n,)
    return [
        Obl('C02.1' + tag, H, 'obl_c02_locate', 'B', 'LocateAlive over all slots + remove_if_alive + exclusive_scan_counts: vacancies = sorted empty slots, '
            'counts = exclusive prefix sums, totals (N=%d)' % n, mode='bv', defines=d, precut=CUTS, tier=tier, timeout=120, stubs=STUBS, validate_n=10),
        Obl('C02.2' + tag, H, 'obl_c02_process_slot', 'B', 'one ProcessSecondariesExecutor call: each valid secondary -> exactly one in-place track or one '
            'initializer at its scan position; consecutive event-unique ids; parent id/event/position carried; nothing else written (N=%d)' % n,
            mode='bv', defines=d, precut=CUTS, tier=tier, timeout=120, stubs=STUBS, validate_n=10),
        Obl('C02.3' + tag, H, 'obl_c02_init_thread', 'B', 'one InitTracksExecutor thread: vacancy nv-1-t receives initializer ninit-1-t, status initializing, '
            'no other slot written (N=%d)' % n, mode='bv', defines=d, precut=CUTS, tier=tier, timeout=120, stubs=STUBS, validate_n=10),
    ]


OBLS = mk(2, 'quick', '') + mk(3, 'thorough', '/N3')
