from engine.runner import Obl

H = 'C17/gather.cc'
ASSUME = [
    'one executor call for one slot of a 2-slot state; all slot contents, previous step-array contents, selection flags, detector map and filters symbolic',
    'callback fan-out (StepCollector / StepGatherAction::process_steps: virtual calls over std::vector<SPStepInterface>) and DetectorSteps::copy_steps are '
    'host code outside the claim; "exactly once per step" relies on the action order registered at run time (host configuration)',
    'single-level ORANGE state (volume 0 = exterior)',
]
TRUSTED = ['clang-14 -O1 lowering', 'ir2c (validated differentially each run)', 'CBMC 6.11']
U = dict(unwind=16, timeout=900)

OBLS = [
    Obl('C17.1post', H, 'obl_c17_gather_post', 'A', 'StepGatherExecutor<post>: track id null iff inactive; every selected field equals the view accessor; unselected / '
        'filtered fields untouched; detector and zero-deposit filters; other slot and pre-step arrays untouched (all 2^12 selections)', **U),
    Obl('C17.1pre', H, 'obl_c17_gather_pre', 'A', 'StepGatherExecutor<pre>: detector = map[pre-step volume], cleared for inactive; selected pre-step fields '
        'equal the view accessors; post-step quantities and other slot untouched', **U),
    Obl('C17.3', H, 'obl_c17_calo', 'A', 'SimpleCaloExecutor: tally[detector] += delivered deposit exactly (one IEEE add), nothing else changes', **U),
    Obl('C17.4', H, 'obl_c17_diagnostics', 'A', 'Action/StepDiagnosticExecutor: exactly one counter +1 at [particle][action] / [particle][min(steps, last bin)] '
        '(killed tracks only for the step diagnostic)', **U),
]
