from engine.runner import Obl
from obligations.C13 import SK, CUT_OUTER, ST_OUT
from obligations.C02 import CUTS, STUBS

ASSUME = [
    'non-interference obligations: the state a new event starts from is a function of (seed, event id, slot, slot count) and of the primaries only',
    'C06.1: RNG: operator=(Initializer) overwrites the whole generator state from the seed (two arbitrary previous states give the same result) and reseed_rng '
    'derives the subsequence from (event, slot, size) only, ignoring the stream id and the previous state',
    'C06.2: InitTracksExecutor overwrites or resets every per-slot sim / particle / physics / material / geometry-cache field of the slot it initialises '
    '(previous contents symbolic)',
    'not covered: re-indexing policies (std::sort / std::partition over track_slots in TrackSortUtils.cc), action-timing and status-checker options (host '
    'ActionSequence configuration), CoreState::reset, and the frame conditions of the physics kernels not harnessed in C01/C05 -- the bit-identical-history claim '
    'is therefore only supported for the state-initialisation half of the property',
]
TRUSTED = ['clang-14 -O1 lowering', 'llir/irsym', 'z3 5.1 / z3 4.8.12 / cvc5']
OBLS = [
    Obl('C06.1a', SK, 'obl_c13_init_calls', 'B', 'XorwowRngEngine::operator=(Initializer): post-state independent of the previous generator state; skips exactly '
        '(subsequence, offset)', precut=CUT_OUTER, timeout=120, stubs=ST_OUT),
    Obl('C06.1b', SK, 'obl_c13_reseed_calls', 'B', 'reseed_rng: every slot re-initialised from (seed, event*size+slot); stream id and previous state ignored',
        precut=CUT_OUTER, timeout=120, stubs=ST_OUT),
    Obl('C06.2', 'C02/round.cc', 'obl_c06_init_overwrites', 'B', 'InitTracksExecutor: every field of the initialised slot is a function of the initializer and the located '
        'volume only (previous slot contents symbolic)', mode='bv', defines=('VERIF_N=2',), precut=CUTS, timeout=120, stubs=STUBS, validate_n=10),
]
