from engine.runner import Obl

S = 'C12/surf.cc'
CO = 'C12/coef.cc'
X = 'C12/xform.cc'
CUT = {'_ZN9celeritas6detail15QuadraticSolverC2Edd': 'stub_qs_ctor', '_ZNK9celeritas6detail15QuadraticSolverclEd': 'stub_qs_solve_c',
       '_ZNK9celeritas6detail15QuadraticSolverclEv': 'stub_qs_solve_on'}
STUB = ['QuadraticSolver constructor / operator()(c) / operator()() replaced by recorders returning arbitrary roots (contract = obligation C12.1)']
ASSUME = [
    'REAL mode (exact arithmetic over the reals, sqrt(x) = any s>=0 with s*s=x): the claims are algebraic -- every sign, coefficient, axis and branch is '
    'right for ALL real parameters/positions/directions; rounding, cancellation, overflow and NaN are outside the claim',
    'assertions tolerate 1e-7*max(scale,1) so that a counterexample violates the native check by a margin; assumptions are exact',
    'compositional: C12.1 (solver contract incl. completeness for |a|>=min_a) + C12.2 (f_S(pos+t dir) = a t^2+2(b/2)t+c for a free t, and the solver answer is '
    'returned unchanged) give: reported distances are exactly the positive crossings',
    'rotation matrices assumed orthonormal; Involute / InvoluteSolver (iterative, trigonometric), SurfaceSimplifier thresholds, SignedPermutation and the '
    'documented degenerate regime |a| < min_a are outside the claim',
]
TRUSTED = ['clang-14 -O1 lowering', 'llir/irsym real mode', 'z3 5.1 nlsat / z3 4.8.12 / cvc5']
R = dict(mode='real', timeout=120, validate=False)

OBLS = [Obl('C12.1', S, 'obl_c12_quadratic', 'B', 'QuadraticSolver::solve_general: each finite root > 0 and satisfies the quadratic (linear equation in the degenerate regime), '
            'ascending, no positive root missed for |a| >= min_a; all a, b/2, c, on/off', **R)]
for e, w in [('plane_aligned', 'PlaneAligned'), ('plane', 'Plane')]:
    OBLS.append(Obl('C12.3/' + e, S, 'obl_c12_' + e, 'B', w + ': distance > 0, point on the plane, no crossing missed (off-surface), sense = sign of n.x - d', **R))
for e in ['sphere', 'sphere_centered', 'cyl_centered', 'cyl_aligned', 'cone', 'simple_quadric', 'general_quadric']:
    OBLS.append(Obl('C12.4/' + e, S, 'obl_c12_' + e, 'B', e + ': calc_sense is the sign of the surface function for every point', **R))
    OBLS.append(Obl('C12.2/' + e, CO, 'obl_c12_coef_' + e, 'B', e + ': coefficients passed to the solver satisfy f(pos+t dir) == a t^2 + 2(b/2) t + c for a free t; '
                    'on-surface flag forwarded; solver answer returned unchanged', precut=CUT, stubs=STUB, **R))
for e in ['sphere', 'cyl', 'cone', 'plane', 'general_quadric']:
    OBLS.append(Obl('C12.5/' + e, S, 'obl_c12_normal_' + e, 'B', e + ': calc_normal has unit length, is parallel to the gradient and points along it', **R))
OBLS += [
    Obl('C12.6/translate', X, 'obl_c12_translate', 'B', 'SurfaceTranslator, every overload except Involute: f_S\'(x\') == f_S(x\' - t) for all x\' (found defect F2: SimpleQuadric)',
        opts={'separate_asserts': True}, **R),
    Obl('C12.6/updown', X, 'obl_c12_updown', 'B', 'Transformation / Translation: transform_down(transform_up(x)) == x for orthonormal R', **R),
    Obl('C12.6/to_gq', X, 'obl_c12_transform_to_gq', 'B', 'SurfaceTransformer(CylAligned / ConeAligned / SimpleQuadric -> GeneralQuadric): f_S\'(x\') == f_S(R^T (x\' - t))', **R),
    Obl('C12.6/simple', X, 'obl_c12_transform_simple', 'B', 'SurfaceTransformer(Plane / Sphere / PlaneAligned): point set preserved (hard polynomial identities: thorough tier)',
        mode='real', timeout=900, validate=False, tier='thorough', opts={'separate_asserts': True}),
    Obl('C12.6/gq', X, 'obl_c12_transform_gq', 'B', 'SurfaceTransformer(GeneralQuadric): f_S\'(x\') == f_S(R^T (x\' - t)) for orthonormal R', **R),
]
