from engine.runner import Obl

H = 'C13/rng.cc'
Z3NEW = ('z3-new', 'z3', 'cvc5')

NOTE = ('real XorwowRngEngine::{next,operator(),discard,jump(JumpPoly),jump(count,polys)} and the two 32x160-bit tables read from '
        'the IR of XorwowRngParams.cc; GenerateCanonical32<double/float>')
ASSUME = [
    'period 2^160-1 of the xorshift transition (Marsaglia 2003) is not checked (needs factorisation of 2^160-1)',
    'composition jump[i] = T^(4^i) is by induction over the 31+31 solver-checked squarings; stated, not solver-checked as one formula',
]
TRUSTED = ['clang-14 -O1 lowering', 'llir/irsym/ir2c translators (differentially validated each run)', 'z3 5.1.0 / z3 4.8.12 / cvc5 1.0.3 / CBMC 6.11']

OBLS = [
    Obl('C13.7', H, 'obl_c13_draw', 'A', 'operator(): state\' = T(state), weyl += 362437, output = weyl\' + x4\' for all 2^192 (state, weyl)', unwind=6),
    Obl('C13.8d', H, 'obl_c13_canonical_double', 'A', 'GenerateCanonical32<double>: two draws, 0 <= r < 1, r*2^53 integral, all 2^64 word pairs', unwind=3),
    Obl('C13.8f', H, 'obl_c13_canonical_float', 'A', 'GenerateCanonical32<float>: 0 <= r <= 1 for all 2^32 words (float is not the configured real_type)', unwind=3),
    Obl('C13.2', H, 'obl_c13_jump0_is_next', 'B', 'jump(jump[0])(s) == next(s) for all 2^160 states', solvers=Z3NEW, timeout=120),
    Obl('C13.4a', H, 'obl_c13_jsub0', 'B', 'jump(jump_subsequence[0]) == jump(jump[31])^32, i.e. 2^67 steps, all states', solvers=Z3NEW, timeout=300, validate_n=2),
]
for i in range(31):
    OBLS.append(Obl('C13.3[%d]' % i, H, 'obl_c13_jump_pow4', 'B', 'jump(jump[%d]) == jump(jump[%d])^4 for all 2^160 states' % (i + 1, i),
                    params={'P:i': i}, solvers=Z3NEW, timeout=120, validate=(i == 0), validate_n=5))
    OBLS.append(Obl('C13.4b[%d]' % i, H, 'obl_c13_jsub_pow4', 'B', 'jump(jump_subsequence[%d]) == jump(jump_subsequence[%d])^4 for all 2^160 states' % (i + 1, i),
                    params={'P:i': i}, solvers=Z3NEW, timeout=120, validate=(i == 0), validate_n=5))

SK = 'C13/skip.cc'
CUT_INNER = {'_ZN9celeritas15XorwowRngEngine4jumpERKNS_5ArrayIjLm5EEE': 'stub_jump_record'}
CUT_OUTER = {'_ZN9celeritas15XorwowRngEngine4jumpEyRKNS_5ArrayINS1_IjLm5EEELm32EEE': 'stub_jump_count'}
ST_IN = ['XorwowRngEngine::jump(JumpPoly) body replaced by a recorder of (table, row): row semantics are obligations C13.2-C13.4']
ST_OUT = ['XorwowRngEngine::jump(count, table) body replaced by a recorder of (count, table): the digit loop is obligation C13.5']
OBLS += [
    Obl('C13.5', SK, 'obl_c13_discard_digits', 'A', 'discard(n): applied table rows satisfy sum times_i*4^i == n for every 64-bit n, no subsequence row; '
        'Weyl value += (uint32)n*362437', unwind=40, precut=CUT_INNER, timeout=900, stubs=ST_IN, bounds='32 base-4 digits (complete for 64-bit n)'),
    Obl('C13.9', SK, 'obl_c13_init_calls', 'B', 'operator=(Initializer): skips exactly `subsequence` subsequences then `offset` draws (all 64 bits each); '
        'post-state independent of the previous state', precut=CUT_OUTER, timeout=120, stubs=ST_OUT),
    Obl('C13.10', SK, 'obl_c13_reseed_calls', 'B', 'reseed_rng: slot i starts at subsequence event*size+i for every 64-bit event id, independent of the stream id',
        precut=CUT_OUTER, timeout=120, stubs=ST_OUT, bounds='2 slots'),
    Obl('C13.10r', SK, 'obl_c13_reseed', 'A', 'reseed_rng through the real digit loop (row recorder)', unwind=40, precut=CUT_INNER, timeout=1800, stubs=ST_IN, tier='thorough'),
]
