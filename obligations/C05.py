from engine.runner import Obl

H = 'C05/step.cc'
ASSUME = [
    'one kernel call for slot 0 of a 2-slot arbitrary symbolic core state (sim, particle, physics step, geometry level-0 state); IEEE doubles bit-precise',
    'energy-loss handler is a contract stub (any deposited in [0,E], == E only when cuts apply: the two CELER_ASSERTs of ElossApplier); its real '
    'implementations are C14/C01 obligations',
    'continuity BETWEEN steps (post(k) = pre(k+1)) is by the frame conditions (every kernel writes only its own slot) plus C02; geometry-dependent parts '
    '(volume containing the position, boundary crossing) are C03',
    'propagation appliers, MSC appliers, PreStepExecutor and BoundaryExecutor are not yet covered',
]
TRUSTED = ['clang-14 -O1 lowering', 'llir/irsym (validated differentially each run)', 'z3 5.1 / z3 4.8.12 / cvc5']
D = ('VERIF_NSEC=1',)
OBLS = [
    Obl('C05.1', H, 'obl_c05_step_limit', 'B', 'SimTrackView::step_limit only lowers the step and replaces the action iff it lowered it; reset = +inf / no action', mode='bv', defines=D, timeout=120),
    Obl('C05.4t', H, 'obl_c05_time', 'B', 'TimeUpdater: time never decreases; unchanged for errored/stopped tracks; nothing else written', mode='bv', defines=D, timeout=300),
    Obl('C05.4s', H, 'obl_c05_track_update', 'B', 'TrackUpdater: step counter +1 (consecutive numbering); MFP -= step*xs unless the discrete action was chosen; status/energy/time untouched', mode='bv', defines=D, timeout=120),
    Obl('C05.5', H, 'obl_c05_eloss', 'B', 'ElossApplier: kinetic energy never increases (E\' = E - deposited exactly), stopped => killed+range action or discrete action; status only moves forward', mode='bv', defines=D, timeout=120),
    Obl('C05.6', H, 'obl_c01_tracking_cut', 'B', 'TrackingCutExecutor: alive/errored -> killed, energy zero', mode='bv', defines=D, timeout=300),
    Obl('C05.3', 'C08/prop.cc', 'obl_c08_propagate', 'B', 'FieldPropagator (contract stubs for driver and geometry): 0 < travelled distance <= requested step on every path, incl. '
        'the stuck-on-boundary bump', mode='real', validate=False, defines=('VERIF_SUBSTEPS=1',), timeout=60,
        opts={'max_site_forks': 3, 'drop_on_bound': True, 'separate_asserts': True, 'fork_timeout_ms': 400}, bounds='max_substeps 1, retry branch <= 3'),
    Obl('C05.8', 'C08/prop.cc', 'obl_c08_linear', 'B', 'LinearPropagator: 0 <= distance <= step and straight-line displacement == distance', mode='real', validate=False, timeout=120),
]
