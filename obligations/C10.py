from engine.runner import Obl

ASSUME = [
    'postfix programs: every well-formed token string of length <= 7 (quick) / 9 (thorough) over 4 faces; senses symbolic',
    'tree rewriting (CsgTree/NodeSimplifier/DeMorgan/PostfixLogicBuilder) is host code over std::variant/unordered_map: see DESIGN (bounded TV planned)',
]
TRUSTED = ['clang-14 -O1 lowering', 'ir2c (validated differentially each run)', 'CBMC 6.11']

OBLS = [
    Obl('C10.1', 'C10/logic.cc', 'obl_c10_postfix', 'A', 'LogicEvaluator+LogicStack == reference postfix semantics for all well-formed programs of length <= 7, all senses',
        unwind=9, defines=('VERIF_L=7',), timeout=600, bounds='program length <= 7, 4 faces'),
    Obl('C10.1/L9', 'C10/logic.cc', 'obl_c10_postfix', 'A', 'same, programs of length <= 9', tier='thorough',
        unwind=11, defines=('VERIF_L=9',), timeout=1800, bounds='program length <= 9, 4 faces'),
    Obl('C10.1s', 'C10/logic.cc', 'obl_c10_stack_laws', 'A', 'LogicStack push/pop/and/or/not laws from an arbitrary stack of depth <= 30',
        unwind=34, defines=('VERIF_L=7',), timeout=600),
]
