from engine.runner import Obl

ASSUME = [
    'postfix programs: every well-formed token string of length <= 7 (quick) / 9 (thorough) over 4 faces; senses symbolic',
    'tree rewriting (CsgTree/NodeSimplifier/DeMorgan/PostfixLogicBuilder) is host code over std::variant/unordered_map: see DESIGN (bounded TV planned)',
]
TRUSTED = ['clang-14 -O1 lowering', 'ir2c (validated differentially each run)', 'CBMC 6.11']

OBLS = [
    Obl('C10.1', 'C10/logic.cc', 'obl_c10_postfix', 'A', 'LogicEvaluator+LogicStack == reference postfix semantics for all well-formed programs of length <= 7, all senses',
        unwind=9, defines=('VERIF_L=7',), timeout=600, bounds='program length <= 7, 4 faces'),
    Obl('C10.1/L9', 'C10/logic.cc', 'obl_c10_postfix', 'A', 'same, programs of length <= 9', tier='thorough',
        unwind=11, defines=('VERIF_L=9',), timeout=1800, bounds='program length <= 9, 4 faces'),
    Obl('C10.1s', 'C10/logic.cc', 'obl_c10_stack_laws', 'A', 'LogicStack push/pop/and/or/not laws from an arbitrary stack of depth <= 30',
        unwind=34, defines=('VERIF_L=7',), timeout=600),
    Obl('C10.2', 'C10/logic.cc', 'obl_c10_infix', 'A', 'InfixEvaluator == reference semantics for every well-formed explicit-infix string of length <= 11 '
        '(one operator kind per parenthesis level, nesting <= 3, negated faces), all senses; includes the short-circuit skipping',
        unwind=14, defines=('VERIF_LI=11',), timeout=900, bounds='string length <= 11, nesting <= 3, 4 faces'),
    Obl('C10.2/L13', 'C10/logic.cc', 'obl_c10_infix', 'A', 'same, strings of length <= 13', tier='thorough',
        unwind=16, defines=('VERIF_LI=13',), timeout=3000, bounds='string length <= 13, nesting <= 3, 4 faces'),
]
