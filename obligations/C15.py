from engine.runner import Obl

H = 'C15/dist.cc'
ASSUME = [
    'support / validity / number of draws for EVERY value of the underlying uniforms: the RNG engine is a stub whose canonical value is arbitrary in [0,1) '
    '(contract of the real engine: C13.8); the statistical half of the property (empirical distribution matches the density) is NOT a solver question and is outside',
    'REAL mode with exp/log/cbrt/sin/cos lemma schemas (see C14); u = 0 excluded for ExponentialDistribution (log(0) = -inf, probability 2^-53: IEEE-only corner)',
    'UniformRealDistribution additionally bit-precise (IEEE mode): known finding F3',
    'Normal / Gamma / Poisson / TsaiUrban / energy-loss fluctuation samplers and RejectionSampler are not yet covered',
]
TRUSTED = ['clang-14 -O1 lowering', 'llir/irsym', 'z3 5.1 / z3 4.8.12 / cvc5', 'lemma schemas (mathematical facts about exp/log/cbrt/sin/cos)']
R = dict(mode='real', validate=False, timeout=120)
OBLS = [
    Obl('C15.1', H, 'obl_c15_uniform', 'B', 'UniformRealDistribution: a <= x < b, one draw (exact arithmetic)', **R),
    Obl('C15.1fp', H, 'obl_c15_uniform', 'B', 'UniformRealDistribution bit-precise (IEEE fma): a <= x, and x < b except the rounding case of known finding F3', mode='fp',
        timeout=45, known=['F3']),
    Obl('C15.2b', H, 'obl_c15_bernoulli', 'B', 'BernoulliDistribution: one draw; never true for p=0, always true for p=1', **R),
    Obl('C15.2s', H, 'obl_c15_selector', 'B', 'Selector/make_selector: index < size, returned only if its weight > 0 (or last), one draw; sizes 1..4, all weights', **R),
    Obl('C15.3e', H, 'obl_c15_exponential', 'B', 'ExponentialDistribution: x > 0 for u in (0,1)', **R),
    Obl('C15.3r', H, 'obl_c15_reciprocal', 'B', 'ReciprocalDistribution: x in [a,b]', **R),
    Obl('C15.3i', H, 'obl_c15_inverse_square', 'B', 'InverseSquareDistribution: x in [a,b]', **R),
    Obl('C15.3d', H, 'obl_c15_radial', 'B', 'RadialDistribution: x in [0,R]', **R),
    Obl('C15.4i', H, 'obl_c15_isotropic', 'B', 'IsotropicDistribution: unit vector, two draws', **R),
    Obl('C15.4b', H, 'obl_c15_box', 'B', 'UniformBoxDistribution: inside the box, three draws', **R),
]
