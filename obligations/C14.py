from engine.runner import Obl

H = 'C14/calc.cc'
ASSUME = [
    'REAL mode: exact arithmetic; std::exp / std::log are uninterpreted functions constrained by instantiated lemmas (strict monotonicity, exp>0, '
    'exp(x)>=1+x, log/exp order isomorphism g<log(x) <=> exp(g)<x): the results hold for ANY strictly increasing mutually inverse pair, of which the true '
    'exp/log is one; numerical accuracy of IEEE interpolation is outside (the bit-precise index computation is C18.7)',
    'tables with K=3 knots (thorough: 4), fully symbolic log-grid front/delta, non-negative values, every prime index incl. none; uniform-grid index found '
    'by enumerating the (small) integer results of the float-to-int conversion',
    'mean energy loss (calc_mean_energy_loss), MSC path conversions and ValueGridBuilder are not yet covered',
]
TRUSTED = ['clang-14 -O1 lowering', 'llir/irsym real mode + lemma schemas (mathematical facts)', 'z3 5.1 / z3 4.8.12 / cvc5']


def mk(k, tier, tag):
    R = dict(mode='real', validate=False, defines=('VERIF_K=%d' % k,), tier=tier, timeout=300, bounds='K=%d knots' % k)
    return [
        Obl('C14.1a' + tag, H, 'obl_c14_xs_between', 'B', 'XsCalculator: >= 0; inside a bin the interpolated quantity (xs, or E*xs above the prime index) lies between its knot values; '
            'documented extrapolation below/above the grid', **R),
        Obl('C14.1b' + tag, H, 'obl_c14_xs_knots', 'B', 'XsCalculator: table reproduced at every knot (divided by E above the prime index); operator[] agrees', **R),
        Obl('C14.3a' + tag, H, 'obl_c14_range_monotone', 'B', 'RangeCalculator: positive, non-decreasing in E, never above the last table value', **R),
        Obl('C14.3b' + tag, H, 'obl_c14_range_knots', 'B', 'RangeCalculator: knots reproduced, bracketed inside a bin, scaled down below the grid', **R),
        Obl('C14.4' + tag, H, 'obl_c14_range_inverse', 'B', 'InverseRangeCalculator(RangeCalculator(E)) == E inside the grid (strictly increasing table)', **R),
    ]


OBLS = mk(3, 'quick', '') + mk(4, 'thorough', '/K4')
OBLS.append(Obl('C14.6', 'C14/eloss.cc', 'obl_c14_mean_eloss', 'B', 'calc_mean_energy_loss over symbolic dE/dx and range tables (K=3), any linear-loss limit in (0,1], '
                'energies inside the table: 0 <= loss <= E; loss == E for a range-limited step (tables consistent: rate*range >= limit*E)', mode='real',
                validate=False, defines=('VERIF_K=3',), timeout=300, opts={'separate_asserts': True},
                bounds='K=3 knots; energies inside the tabulated range; monotonicity in the step length across the linear/range switch is NOT asserted'))
