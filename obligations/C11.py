from engine.runner import Obl

H = 'C11/safety.cc'
ASSUME = [
    'REAL mode (exact arithmetic; see C12): for the real CalcSafetyDistance functor and every surface type: safety >= 0 and every surface point is at least that far away',
    'exact centre of a sphere / axis of a cylinder (normal = NaN, code returns +inf) is an IEEE-only case outside real mode',
    'the minimum over faces / levels (SimpleUnitTracker::safety, OrangeTrackView::find_safety), RectArrayTracker and the MSC consumers are not yet covered',
    'a Cauchy-Schwarz instance implied by |u| = 1 is handed to the nonlinear solver as a lemma',
]
TRUSTED = ['clang-14 -O1 lowering', 'llir/irsym real mode', 'z3 5.1 nlsat / z3 4.8.12 / cvc5']
R = dict(mode='real', validate=False)
OBLS = [
    Obl('C11.1/plane_aligned', H, 'obl_c11_plane_aligned', 'B', 'PlaneAligned: safety >= 0 and <= distance along every ray', timeout=120, **R),
    Obl('C11.1/cyl_centered', H, 'obl_c11_cyl_centered', 'B', 'CylCentered: safety >= 0 and <= distance along every ray', timeout=300, **R),
    Obl('C11.2/cyl', H, 'obl_c11_not_simple_cyl', 'B', 'CylAligned (no simple safety): safety is exactly 0', timeout=60, **R),
    Obl('C11.2/cone', H, 'obl_c11_not_simple_cone', 'B', 'ConeAligned (no simple safety): safety is exactly 0', timeout=60, **R),
    Obl('C11.2/sq', H, 'obl_c11_not_simple_sq', 'B', 'SimpleQuadric (no simple safety): safety is exactly 0', timeout=60, **R),
    Obl('C11.2/gq', H, 'obl_c11_not_simple_gq', 'B', 'GeneralQuadric (no simple safety): safety is exactly 0', timeout=60, **R),
    Obl('C11.1/plane', H, 'obl_c11_plane', 'B', 'Plane: safety conservative', timeout=1500, tier='thorough', **R),
    Obl('C11.1/sphere_centered', H, 'obl_c11_sphere_centered', 'B', 'SphereCentered: safety conservative', timeout=1500, tier='thorough', **R),
    Obl('C11.1/sphere', H, 'obl_c11_sphere', 'B', 'Sphere: safety conservative', timeout=1500, tier='thorough', **R),
]
