from engine.runner import Obl

H = 'C04/interact.cc'
ASSUME = [
    'REAL mode (exact arithmetic, exp/log/sin/cos/sqrt as constrained symbols); the RNG is a stub returning an arbitrary canonical value in (0,1) per draw; '
    'real StackAllocator over a buffer whose capacity (0..needed) is symbolic',
    'rejection loops are memoryless (an iteration reads nothing an earlier one wrote except the engine) and are followed for 3 iterations; deeper paths are outside '
    'the bound (counted in the evidence)',
    'covered models: Klein-Nishina, e+ annihilation (EPlusGG), the shared ionisation final-state helper, and the Moller / Bhabha / Bethe-Bloch / Bragg energy samplers (MuBB thorough only).  NOT covered: Livermore PE / relaxation, Rayleigh, Bethe-Heitler, Moller-Bhabha, Seltzer-Berger, '
    'relativistic/combined brems, Coulomb/Wentzel, muon/hadron ionisation and bremsstrahlung, neutron elastic; momentum balance of Klein-Nishina and unit-norm directions',
    'energy ranges "photon energy in (0,E]" need transcendental bounds and are only attempted in the thorough tier (may stay undecided)',
]
TRUSTED = ['clang-14 -O1 lowering', 'llir/irsym real mode + lemma schemas', 'z3 5.1 nlsat / z3 4.8.12 / cvc5']
O = dict(mode='real', validate=False, opts={'max_site_forks': 3, 'drop_on_bound': True, 'separate_asserts': True})
OBLS = [
    Obl('C04.KN', H, 'obl_c04_klein_nishina', 'B', 'KleinNishinaInteractor: E_in = E_gamma\' + E_electron + deposit on every accepted path; electron emitted only above the model threshold '
        '(else its energy is deposited); explicit failure with nothing emitted when the stack is full; draws <= 4 + 3 per iteration', timeout=120, bounds='rejection loop <= 3 iterations', **O),
    Obl('C04.EPGG', H, 'obl_c04_eplusgg', 'B', 'EPlusGGInteractor (in flight and at rest): E_in + 2mc^2 = E_gamma1 + E_gamma2; two photons; absorbed; explicit failure with nothing '
        'emitted when fewer than 2 slots are free', timeout=120, bounds='rejection loop <= 3 iterations', **O),
    Obl('C04.EPGGp', H, 'obl_c04_eplusgg', 'B', 'EPlusGGInteractor: the two photon momenta add up to the positron momentum (rotate cut to its contract; open known finding F9 in flight)',
        timeout=40, bounds='rejection loop <= 3 iterations; in flight decided at a witness point, the general in-flight queries stay undecided', defines=('VERIF_CUT_ROTATE', 'VERIF_MOMENTUM'),
        precut={'_ZN9celeritas6rotateIdEENS_5ArrayIT_Lm3EEERKS3_S5_': 'stub_rotate',
                '_ZNK9celeritas22ReciprocalDistributionIdEclIN12_GLOBAL__N_17StubRngEEEdRT_': 'stub_recip'}, known=['F9'], **O),
    Obl('C04.IONI', 'C04/ioni.cc', 'obl_c04_ioni_final_state', 'B', 'detail::IoniFinalStateHelper (final state of Moller/Bhabha and muon/hadron ionisation) for every projectile mass >= m_e, '
        'energy and knock-on energy W <= W_max: energy balance, electron forward with cos(theta) <= 1, |p_inc - p_e| = p(T - W) > 0',
        timeout=120, defines=(), precut={'_ZN9celeritas6rotateIdEENS_5ArrayIT_Lm3EEERKS3_S5_': 'stub_rotate'},
        mode='real', validate=False, opts={'separate_asserts': True, 'inproc_ms': 3000}),
    Obl('C04.MB/moller', 'C04/ioni.cc', 'obl_c04_moller_fraction', 'B', 'MollerEnergyDistribution: sampled fraction in [cutoff/T, 1/2] for every draw', timeout=60,
        bounds='rejection loop <= 3 iterations', **O),
    Obl('C04.MB/bhabha', 'C04/ioni.cc', 'obl_c04_bhabha_fraction', 'B', 'BhabhaEnergyDistribution: sampled fraction in [cutoff/T, 1] for every draw', timeout=60,
        bounds='rejection loop <= 3 iterations', **O),
    Obl('C04.MUHAD/bethebloch', 'C04/muhad.cc', 'obl_c04_bethebloch_range', 'B', 'BetheBlochEnergyDistribution: threshold = cut, max = W_max(T, M), sample in between '
        '(every projectile mass > m_e)', timeout=60, bounds='rejection loop <= 3 iterations', **O),
    Obl('C04.MUHAD/bragg', 'C04/muhad.cc', 'obl_c04_bragg_range', 'B', 'BraggICRU73QOEnergyDistribution: threshold <= cut, max = W_max, sample in between', timeout=60,
        bounds='rejection loop <= 3 iterations', **O),
    Obl('C04.MUHAD/mubb', 'C04/muhad.cc', 'obl_c04_mubb_range', 'B', 'MuBBEnergyDistribution: threshold = cut, max = W_max, sample in between (radiative-correction paths with log terms: '
        'undecided in the quick budget)', timeout=300, tier='thorough', bounds='rejection loop <= 3 iterations', **O),
    Obl('C04.KN+', H, 'obl_c04_klein_nishina', 'B', 'KleinNishina: additionally outgoing photon energy in (0,E], non-negative energies', timeout=900, tier='thorough',
        defines=('VERIF_POSITIVITY',), **O),
    Obl('C04.EPGG+', H, 'obl_c04_eplusgg', 'B', 'EPlusGG: additionally both photon energies positive', timeout=900, tier='thorough', defines=('VERIF_POSITIVITY',), **O),
]
