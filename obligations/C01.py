from engine.runner import Obl

H = 'C05/step.cc'
ASSUME = [
    'per-kernel balance: each energy-touching kernel keeps  E_kin + deposited + sum(secondary energies) + 2mc^2 per positron  constant, checked with single '
    'IEEE operations made explicit (E\' = E - d and dep\' = dep + d: the same d), from an arbitrary symbolic slot state',
    'the event-level balance is the sum over kernels, steps and tracks (with C02: each secondary becomes exactly one track): stated, not solver-checked',
    'interactors themselves (C04), MeanELoss/FluctELoss (C14) and the boundary/propagation kernels are not yet covered here',
]
TRUSTED = ['clang-14 -O1 lowering', 'llir/irsym (validated differentially each run)', 'z3 5.1 / z3 4.8.12 / cvc5']
OBLS = [
    Obl('C01.1', H, 'obl_c05_eloss', 'B', 'ElossApplier: E\' = E - d and deposition\' = deposition + d with the same d in [0,E]; nothing changes when not applicable', mode='bv', defines=('VERIF_NSEC=1',), timeout=120),
    Obl('C01.3', H, 'obl_c01_interaction', 'B', 'InteractionApplier: track takes the interaction energy; deposition += interaction deposit + E (+2mc^2 per e+) of every secondary '
        'killed by the production cut, which is exactly the set CutoffView::apply selects; survivors pass unchanged (1 secondary)', mode='bv', defines=('VERIF_NSEC=1',), timeout=300),
    Obl('C01.3/2', H, 'obl_c01_interaction', 'B', 'same with 2 secondaries', mode='bv', defines=('VERIF_NSEC=2',), timeout=900, tier='thorough'),
    Obl('C01.4', H, 'obl_c01_tracking_cut', 'B', 'TrackingCutExecutor: deposition += E (+2mc^2 for a positron), E\' = 0, killed', mode='bv', defines=('VERIF_NSEC=1',), timeout=300),
]
