from engine.runner import Obl

ASSUME = [
    'StackAllocator: allocation counts <= 2^16 (no 32-bit wrap of start+count); storage backed by 4 elements for the pointer checks, capacity symbolic in [1,4]',
    'single-threaded model: atomic_add lowers to load/add/store (the concurrent restore protocol is outside the claim)',
]
TRUSTED = ['clang-14 -O1 lowering', 'ir2c (validated differentially each run)', 'CBMC 6.11']

OBLS = [
    Obl('C16.1', 'C16/alloc.cc', 'obl_c16_alloc_step', 'A',
        'StackAllocator<Secondary>::operator()/size/get/clear from an arbitrary valid state: success iff it fits, block = [old, old+count), '
        'failure leaves size and storage untouched, earlier elements never overlapped', unwind=6, timeout=300),
    Obl('C16.3', 'C05/step.cc', 'obl_c01_interaction', 'B', 'InteractionApplier with a FAILED interaction (secondary stack exhausted): energy, direction, status, '
        'deposition and secondaries unchanged; step limited to zero with the failure action so that the track interacts again', mode='bv',
        defines=('VERIF_NSEC=1',), timeout=300),
]
