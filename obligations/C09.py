from engine.runner import Obl

BB = 'C09/bbox.cc'
CL = 'C09/clip.cc'
ASSUME = [
    'bounding-zone stage of geometry construction only: every boolean operation on zones (BoundingZone.cc), the box utilities they use and the '
    'surface clippers that create the leaf zones are checked as ONE inductive step from an arbitrary valid zone (interior enclosed by exterior) that is '
    'consistent with an arbitrary region at an arbitrary probe point; by induction over the CSG tree every propagated zone is sound, hence the volume '
    'bounding boxes handed to the BIH (get_exterior_bbox) contain their volumes',
    'zone algebra: every bound finite or infinite, null boxes included, NaN excluded (exact extended reals; IEEE doubles via CBMC where box volumes are compared); probe point not exactly on a box face (documented: '
    'boundaries are bumped before use)',
    'surface clippers: exact real arithmetic (sqrt as exact root), boxes either infinite or finite; the interior clause tolerates points within a relative '
    '1e-8 of the surface (the property excludes points within the construction tolerance)',
    'solid primitives (C09.1): Box, Sphere, Cylinder, Ellipsoid, Cone, Parallelepiped run their real build() against a recording builder (the member templates of '
    'IntersectSurfaceBuilder are defined by the harness; JSON output is stubbed out); Prism, GenPrism, InfWedge, Involute and the hollow / '
    'poly solids are not covered; near-equal cone radii (cylinder approximation) excluded',
    'CSG simplification, soft surface de-duplication, transforms of boxes (calc_transform), UnitProto / '
    'InputBuilder / OrangeParams assembly (std::vector / variant / map host code) are outside the encodable reach and outside the claim; surface '
    'translation / transformation is covered under C12.6',
]
TRUSTED = ['clang-14 -O1 lowering', 'llir/irsym real mode (extended reals) + z3', 'ir2c + CBMC 6.11 (cadical) for the two volume-comparing cases']
# zone algebra: comparisons, min/max and selects only -> exact over symbolic EXTENDED reals (engine B, opts xr_select: every bound is
# finite-or-infinite without forking; order-isomorphic to non-NaN IEEE doubles).  The two cases that compare box volumes (products of widths,
# inf*0 = NaN in IEEE) go bit-precisely through CBMC (SAT back end; the z3/cvc5 back ends time out on the double multiplications).
Z = dict(unwind=4, timeout=1200, solver=('--sat-solver', 'cadical'))
X = dict(mode='real', timeout=120, validate=False, opts={'separate_asserts': True, 'xr_select': True})
R = dict(mode='real', timeout=120, validate=False, opts={'separate_asserts': True})

OBLS = [
    Obl('C09.3', BB, 'obl_c09_bbox_ops', 'B', 'calc_union / calc_intersection / encloses / is_inside on boxes agree with point-set semantics', **X),
    Obl('C09.4/negate', BB, 'obl_c09_zone_negate_exterior', 'B', 'BoundingZone::negate describes the complement; get_exterior_bbox contains the region', **X),
]
for na in (0, 1):
    for nb in (0, 1):
        d = ('VERIF_NEG_A=%d' % na, 'VERIF_NEG_B=%d' % nb)
        tag = '%s%s' % ('~A' if na else 'A', '~B' if nb else 'B')
        vol_and, vol_or = (na and nb), (not na and not nb)   # these compare box volumes
        OBLS.append(Obl('C09.4/and/' + tag, BB, 'obl_c09_zone_intersection', 'A' if vol_and else 'B', 'calc_intersection(BoundingZone) for %s: known-inside '
                        'box inside the region, region inside the known-outside complement, interior stays enclosed (found defect F4)' % tag, defines=d,
                        **(Z if vol_and else X)))
        OBLS.append(Obl('C09.4/or/' + tag, BB, 'obl_c09_zone_union', 'A' if vol_or else 'B', 'calc_union(BoundingZone) for %s: sound and valid' % tag, defines=d,
                        known=(['F5'] if na != nb else []), **(Z if vol_or else X)))
OBLS.append(Obl('C09.3/transform', BB, 'obl_c09_bbox_transform', 'B', 'calc_transform(Transformation, BBox): the axis-aligned box of the transformed box contains the image of '
                'every point of a finite box, for ANY matrix and translation (512 sparsity paths, ~7 min)', mode='real', timeout=120, validate=False, tier='thorough',
                opts={'separate_asserts': True, 'max_site_forks': 200, 'max_paths': 2000}))
SH = 'C09/shapes.cc'
for e, w in [('box', 'Box'), ('sphere', 'Sphere'), ('cylinder', 'Cylinder'), ('ellipsoid', 'Ellipsoid'), ('cone', 'Cone (interior box clause: thorough tier)')]:
    OBLS.append(Obl('C09.1/' + e, SH, 'obl_c09_shape_' + e, 'B', w + ': the real build() against a recording IntersectSurfaceBuilder: the intersection of the emitted '
                    'signed surfaces is exactly the solid; promised exterior / interior boxes are sound', **R))
OBLS.append(Obl('C09.1/cone+', SH, 'obl_c09_shape_cone', 'B', 'Cone incl. the inscribed interior box', defines=('VERIF_CONE_INTERIOR',), mode='real', timeout=900,
                validate=False, tier='thorough', opts={'separate_asserts': True}))
SCP = {'_ZN9celeritas6detail13sincospi_implEdPdS1_': 'stub_sincospi'}
OBLS.append(Obl('C09.1/para', SH, 'obl_c09_shape_parallelepiped', 'B', 'Parallelepiped: emitted planes are exactly the documented solid (half PROJECTIONS dx, dy, dz; alpha, '
                'theta, phi as for G4Para); sincos cut to any point of the unit circle (open known finding F10: alpha != 0)', defines=('VERIF_PARA=1',), precut=SCP,
                known=['F10'], **R))
OBLS.append(Obl('C09.1/para_bbox', SH, 'obl_c09_shape_parallelepiped', 'B', 'Parallelepiped (alpha = 0): the promised bounding box contains the solid (open known finding '
                'F11: theta != 0)', defines=('VERIF_PARA=2',), precut=SCP, known=['F11'], **R))
for ax in 'xyz':
    OBLS.append(Obl('C09.5/plane_' + ax, CL, 'obl_c09_clip_plane_' + ax, 'B', 'SurfaceClipper(PlaneAligned<%s>): interior inside, exterior keeps the inside part' % ax, **R))
    OBLS.append(Obl('C09.5/cyl_' + ax, CL, 'obl_c09_clip_cyl_' + ax, 'B', 'SurfaceClipper(CylAligned<%s>): inscribed square inside the cylinder, exterior = circumscribed square' % ax, **R))
OBLS += [
    Obl('C09.5/sphere', CL, 'obl_c09_clip_sphere', 'B', 'SurfaceClipper(Sphere): exterior sound; interior box inside the sphere (known finding F6: half-width sqrt(3)/2 r)',
        known=['F6'], **R),
    Obl('C09.5/resets', CL, 'obl_c09_clip_resets', 'B', 'SurfaceClipper(Plane / Cone / SimpleQuadric): interior reset to null, exterior unchanged', **R),
    Obl('C09.5/negplane', CL, 'obl_c09_negclip_plane', 'B', 'NegatedSurfaceClipper(PlaneAligned): both boxes clipped to the positive side', **R),
    Obl('C09.5/negother', CL, 'obl_c09_negclip_other', 'B', 'NegatedSurfaceClipper(curved surface): interior invalidated, exterior unchanged', **R),
]
