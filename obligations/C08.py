from engine.runner import Obl

H = 'C08/prop.cc'
ASSUME = [
    'REAL mode (exact arithmetic).  The real FieldPropagator<DriverT, GTV> loop runs against CONTRACT STUBS: the geometry returns any {distance in [0,max], '
    'boundary} (distance = max when no boundary), clears its flag on move_internal, needs a pending boundary for move_to_boundary; the driver returns any '
    '0 < s <= requested with |momentum| unchanged and chord <= arc',
    'substep budget max_substeps = 1 (quick) / 2 (thorough); the boundary-retry halving branch is followed 3 times, deeper paths are outside the bound '
    '(counted in the evidence); a zero-length chord (IEEE inf/NaN handled through fmin) is outside real mode',
    'FieldDriver (adaptive stepping), the Runge-Kutta/Dormand-Prince/helix steppers and "end point on the analytic helix" are not covered',
]
TRUSTED = ['clang-14 -O1 lowering', 'llir/irsym real mode', 'z3 5.1 nlsat / z3 4.8.12 / cvc5']
PROP = dict(mode='real', validate=False, opts={'max_site_forks': 3, 'drop_on_bound': True, 'separate_asserts': True, 'fork_timeout_ms': 400})
WHAT = ('FieldPropagator::operator(): geometry used per contract; 0 < distance <= step; looping only with the substep budget spent and the step incomplete; '
        'returned boundary flag == geometry state, reached by exactly one move_to_boundary; otherwise full step (or documented bump); |momentum| unchanged')
OBLS = [
    Obl('C08.1', H, 'obl_c08_propagate', 'B', WHAT + ' (max_substeps=1)', defines=('VERIF_SUBSTEPS=1',), timeout=60, bounds='max_substeps 1, retry branch <= 3', **PROP),
    Obl('C08.3', H, 'obl_c08_linear', 'B', 'LinearPropagator: contract-conforming geometry use; 0 <= distance <= step; boundary flag == geometry state; displacement == distance',
        mode='real', validate=False, timeout=120),
    Obl('C08.5', H, 'obl_c08_field_utils', 'B', 'detail::make_chord (positive length, unit direction, src + length*dir = dst) and is_intercept_close (== distance test)',
        mode='real', validate=False, timeout=120),
    Obl('C08.1/deep', H, 'obl_c08_propagate', 'B', WHAT + ' (max_substeps=2, solver budget 900 s/query)', defines=('VERIF_SUBSTEPS=2',), timeout=900,
        bounds='max_substeps 2, retry branch <= 3', tier='thorough', **PROP),
]
