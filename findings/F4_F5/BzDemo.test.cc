//----------------------------------*-C++-*----------------------------------//
// Demonstration of suspected BoundingZone defects F4 and F5 through the public
// construction API (UnitProto -> InputBuilder -> OrangeInput -> OrangeParams
// -> OrangeTrackView initialization).
//---------------------------------------------------------------------------//
#include <iostream>
#include <map>
#include <memory>
#include <sstream>
#include <variant>

#include "corecel/cont/ArrayIO.hh"
#include "corecel/io/Repr.hh"
#include "corecel/math/ArrayUtils.hh"
#include "geocel/Types.hh"
#include "orange/BoundingBoxUtils.hh"
#include "orange/OrangeInput.hh"
#include "orange/OrangeParams.hh"
#include "orange/OrangeTrackView.hh"
#include "orange/OrangeTypes.hh"
#include "orange/orangeinp/CsgObject.hh"
#include "orange/orangeinp/InputBuilder.hh"
#include "orange/orangeinp/Shape.hh"
#include "orange/orangeinp/Transformed.hh"
#include "orange/orangeinp/UnitProto.hh"
#include "orange/orangeinp/detail/CsgUnit.hh"

#include "../OrangeTestBase.hh"
#include "celeritas_test.hh"

using std::cout;
using std::endl;

namespace celeritas
{
namespace orangeinp
{
namespace test
{
//---------------------------------------------------------------------------//
using SPConstObject = std::shared_ptr<ObjectInterface const>;

template<class CR, class... Args>
SPConstObject make_shape(std::string&& label, Args&&... args)
{
    return std::make_shared<Shape<CR>>(std::move(label),
                                       CR{std::forward<Args>(args)...});
}

SPConstObject make_sph(std::string&& label, real_type radius)
{
    return make_shape<Sphere>(std::move(label), radius);
}

SPConstObject make_cube(std::string&& label, real_type hw)
{
    return make_shape<Box>(std::move(label), Real3{hw, hw, hw});
}

UnitProto::MaterialInput
make_material(SPConstObject obj, GeoMaterialId::size_type m)
{
    UnitProto::MaterialInput result;
    result.interior = std::move(obj);
    result.fill = GeoMaterialId{m};
    return result;
}

std::string bz_to_string(detail::BoundingZone const& bz)
{
    std::ostringstream os;
    os << "{interior=" << bz.interior << ", exterior=" << bz.exterior
       << ", negated=" << (bz.negated ? "true" : "false") << "}";
    return os.str();
}

//---------------------------------------------------------------------------//
class BzDemoTest : public ::celeritas::test::OrangeTestBase
{
  protected:
    using Tol = Tolerance<>;
    using Unit = detail::CsgUnit;

    Tol tol_ = Tol::from_relative(1e-5);
    std::shared_ptr<OrangeParams const> params_;
    OrangeInput last_input_;
    bool verbose_{true};

    // One cached geometry per *test* (not per suite)
    std::string geometry_basename() const override
    {
        auto const* ti
            = ::testing::UnitTest::GetInstance()->current_test_info();
        return std::string(ti->test_case_name()) + "." + ti->name();
    }

    SPConstGeo build_geometry() override
    {
        CELER_VALIDATE(params_, << "params not built");
        return params_;
    }

    //! Level 0: print the CSG unit's bounding zones for each volume
    void print_csg_regions(UnitProto const& proto)
    {
        Unit u = proto.build(tol_, BBox{});
        auto const& vols = u.tree.volumes();
        if (verbose_)
        {
            cout << "  [csg] tree: " << u.tree << endl;
            std::map<NodeId, Unit::Region> sorted(u.regions.begin(),
                                                  u.regions.end());
            for (auto const& kv : sorted)
            {
                cout << "  [csg] region node " << kv.first.unchecked_get()
                     << " '";
                for (auto const& md : u.metadata[kv.first.unchecked_get()])
                {
                    cout << md << ",";
                }
                cout << "' bounds " << bz_to_string(kv.second.bounds) << endl;
            }
        }
        for (auto i : range(vols.size()))
        {
            auto iter = u.regions.find(vols[i]);
            ASSERT_TRUE(iter != u.regions.end());
            cout << "  [csg] volume " << i << " node "
                 << vols[i].unchecked_get() << " bounds "
                 << bz_to_string(iter->second.bounds) << endl;
        }
    }

    //! Level 1: build OrangeInput and return the UnitInput volume bbox
    UnitInput const& build_input(UnitProto const& proto)
    {
        InputBuilder build_input([&] {
            InputBuilder::Options opts;
            opts.tol = tol_;
            return opts;
        }());
        last_input_ = build_input(proto);
        EXPECT_TRUE(last_input_);
        EXPECT_EQ(1, last_input_.universes.size());
        auto const& u = std::get<UnitInput>(last_input_.universes.front());
        cout << "  [UnitInput] unit bbox = " << u.bbox << endl;
        for (auto i : range(u.volumes.size()))
        {
            cout << "  [UnitInput] volumes[" << i << "] label='"
                 << u.volumes[i].label << "' bbox=" << u.volumes[i].bbox
                 << " (null=" << (u.volumes[i].bbox ? "no" : "yes") << ")"
                 << endl;
        }
        return u;
    }

    static VolumeInput const&
    find_vol(UnitInput const& u, std::string const& name)
    {
        for (auto const& v : u.volumes)
        {
            if (v.label.name == name)
                return v;
        }
        CELER_VALIDATE(false, << "no volume " << name);
    }

    //! Level 2: build params and initialize a track at the point
    std::string locate(Real3 const& pos)
    {
        if (!params_)
        {
            OrangeInput copy = last_input_;
            params_ = std::make_shared<OrangeParams>(std::move(copy));
        }
        auto geo = this->make_geo_track_view();
        geo = GeoTrackInitializer{pos, Real3{1, 0, 0}};
        std::string result;
        if (geo.failed())
        {
            result = "[FAILED]";
        }
        else if (geo.is_outside())
        {
            result = "[OUTSIDE]";
        }
        else
        {
            result = this->geometry()->volumes().at(geo.volume_id()).name;
        }
        cout << "  [runtime] init at " << repr(pos) << " -> volume '" << result
             << "'" << endl;
        return result;
    }

    //! Start in a neighbor volume and track along +x, listing volumes
    std::string track_x(Real3 const& pos)
    {
        auto result = this->track(pos, Real3{1, 0, 0});
        std::ostringstream os;
        for (auto i : range(result.volumes.size()))
        {
            os << result.volumes[i] << "(" << result.distances[i] << ") ";
        }
        cout << "  [runtime] track from " << repr(pos) << " +x: " << os.str()
             << endl;
        return os.str();
    }
};

//---------------------------------------------------------------------------//
// F4: V = A - (B - C); A = sph r=1, C = sph r=2, B = cube hw=5
//---------------------------------------------------------------------------//
UnitProto::Input make_f4_input(bool use_background)
{
    UnitProto::Input inp;
    inp.boundary.interior = make_sph("bound", 10.0);
    inp.boundary.zorder = ZOrder::media;
    inp.label = "f4";

    auto a = make_sph("A", 1.0);
    auto c = make_sph("C", 2.0);
    auto b = make_cube("B", 5.0);
    auto x = make_subtraction("X", b, c);  // B - C: cube with spherical hole
    auto v = make_subtraction("V", a, x);  // A - X == A
    inp.materials.push_back(make_material(v, 1));
    inp.materials.push_back(make_material(x, 2));
    if (use_background)
    {
        // everything else (C - A gap, and bound - B) is background
        inp.background.fill = GeoMaterialId{3};
    }
    else
    {
        inp.materials.push_back(
            make_material(make_subtraction("gap", c, a), 3));
        inp.materials.push_back(make_material(
            make_subtraction("outer", inp.boundary.interior, b), 4));
    }
    return inp;
}

TEST_F(BzDemoTest, f4_background)
{
    UnitProto proto{make_f4_input(true)};
    this->print_csg_regions(proto);
    auto const& u = this->build_input(proto);

    Real3 const probe{0, 0, 0};
    auto const& v = find_vol(u, "V");
    // (1) UnitInput level
    EXPECT_TRUE(static_cast<bool>(v.bbox)) << "V has a NULL bbox";
    EXPECT_TRUE(v.bbox && is_inside(v.bbox, probe))
        << "probe " << repr(probe) << " not inside V's bbox " << v.bbox;

    // (2) runtime
    EXPECT_EQ("V", this->locate(probe));
    EXPECT_EQ("X", this->locate({3, 0, 0}));
    this->track_x({-9, 0, 0});
}

TEST_F(BzDemoTest, f4_explicit)
{
    UnitProto proto{make_f4_input(false)};
    this->print_csg_regions(proto);
    auto const& u = this->build_input(proto);

    Real3 const probe{0, 0, 0};
    auto const& v = find_vol(u, "V");
    EXPECT_TRUE(static_cast<bool>(v.bbox)) << "V has a NULL bbox";
    EXPECT_TRUE(v.bbox && is_inside(v.bbox, probe))
        << "probe " << repr(probe) << " not inside V's bbox " << v.bbox;

    EXPECT_EQ("V", this->locate(probe));
    this->track_x({-9, 0, 0});
}

// Bonus: V as the global boundary
TEST_F(BzDemoTest, f4_as_boundary)
{
    UnitProto::Input inp;
    auto a = make_sph("A", 1.0);
    auto c = make_sph("C", 2.0);
    auto b = make_cube("B", 5.0);
    auto x = make_subtraction("X", b, c);
    inp.boundary.interior = make_subtraction("V", a, x);
    inp.background.fill = GeoMaterialId{1};
    inp.label = "f4b";
    UnitProto proto{std::move(inp)};
    try
    {
        this->print_csg_regions(proto);
        this->build_input(proto);
        cout << "  [f4_as_boundary] construction succeeded" << endl;
    }
    catch (std::exception const& e)
    {
        cout << "  [f4_as_boundary] EXCEPTION: " << e.what() << endl;
        ADD_FAILURE() << "construction threw: " << e.what();
    }
}

//---------------------------------------------------------------------------//
// F5: V = ~(A | ~B) = B - A
//---------------------------------------------------------------------------//
UnitProto::Input
make_f5_input(SPConstObject a, SPConstObject b, bool use_background)
{
    UnitProto::Input inp;
    inp.boundary.interior = make_sph("bound", 10.0);
    inp.boundary.zorder = ZOrder::media;
    inp.label = "f5";

    auto u = std::make_shared<AnyObjects>(
        "U", AnyObjects::VecObject{a, std::make_shared<NegatedObject>(b)});
    auto v = std::make_shared<NegatedObject>("V", u);

    inp.materials.push_back(make_material(v, 1));
    inp.materials.push_back(make_material(a, 2));
    if (use_background)
    {
        inp.background.fill = GeoMaterialId{3};
    }
    else
    {
        inp.materials.push_back(make_material(
            make_subtraction("outer", inp.boundary.interior, b), 3));
    }
    return inp;
}

// Task's example: A = sph r=1, B = cube hw=5
TEST_F(BzDemoTest, f5_sph1_cube5_background)
{
    UnitProto proto{
        make_f5_input(make_sph("A", 1.0), make_cube("B", 5.0), true)};
    this->print_csg_regions(proto);
    auto const& u = this->build_input(proto);

    Real3 const probe{3, 0, 0};
    auto const& v = find_vol(u, "V");
    EXPECT_TRUE(static_cast<bool>(v.bbox)) << "V has a NULL bbox";
    EXPECT_TRUE(v.bbox && is_inside(v.bbox, probe))
        << "probe " << repr(probe) << " not inside V's bbox " << v.bbox;
    EXPECT_EQ("V", this->locate(probe));
    this->track_x({-9, 0, 0});
}

// A = sph r=4.5, B = sph r=5: A_x=[-4.5,4.5]^3 encloses B_i=[-4.33,4.33]^3
// (NOTE: the sphere interior box is built as r*sqrt(3)/2, not r/sqrt(3))
TEST_F(BzDemoTest, f5_sph45_sph5_background)
{
    UnitProto proto{
        make_f5_input(make_sph("A", 4.5), make_sph("B", 5.0), true)};
    this->print_csg_regions(proto);
    auto const& u = this->build_input(proto);

    Real3 const probe{4.75, 0, 0};
    auto const& v = find_vol(u, "V");
    EXPECT_TRUE(static_cast<bool>(v.bbox)) << "V has a NULL bbox";
    EXPECT_TRUE(v.bbox && is_inside(v.bbox, probe))
        << "probe " << repr(probe) << " not inside V's bbox " << v.bbox;
    EXPECT_EQ("V", this->locate(probe));
    // Point in V that happens to be inside the wrong bbox (corner of cube)
    EXPECT_EQ("V", this->locate({2.8, 2.8, 2.8}));
    this->track_x({-9, 0, 0});
}

TEST_F(BzDemoTest, f5_sph45_sph5_explicit)
{
    UnitProto proto{
        make_f5_input(make_sph("A", 4.5), make_sph("B", 5.0), false)};
    this->print_csg_regions(proto);
    auto const& u = this->build_input(proto);

    Real3 const probe{4.75, 0, 0};
    auto const& v = find_vol(u, "V");
    EXPECT_TRUE(static_cast<bool>(v.bbox)) << "V has a NULL bbox";
    EXPECT_TRUE(v.bbox && is_inside(v.bbox, probe))
        << "probe " << repr(probe) << " not inside V's bbox " << v.bbox;
    EXPECT_EQ("V", this->locate(probe));
    this->track_x({-9, 0, 0});
}

// A = sph r=1, B = big rotated cube (no interior box): bbox = A_x
TEST_F(BzDemoTest, f5_sph1_rotcube_background)
{
    auto b = std::make_shared<Transformed>(
        make_cube("B", 5.0),
        Transformation{make_rotation(Axis::z, Turn{0.125}), Real3{0, 0, 0}});
    UnitProto proto{make_f5_input(make_sph("A", 1.0), b, true)};
    this->print_csg_regions(proto);
    auto const& u = this->build_input(proto);

    Real3 const probe{3, 0, 0};
    auto const& v = find_vol(u, "V");
    EXPECT_TRUE(static_cast<bool>(v.bbox)) << "V has a NULL bbox";
    EXPECT_TRUE(v.bbox && is_inside(v.bbox, probe))
        << "probe " << repr(probe) << " not inside V's bbox " << v.bbox;
    EXPECT_EQ("V", this->locate(probe));
    this->track_x({-9, 0, 0});
}


TEST_F(BzDemoTest, f5_sph1_rotcube_explicit)
{
    auto b = std::make_shared<Transformed>(
        make_cube("B", 5.0),
        Transformation{make_rotation(Axis::z, Turn{0.125}), Real3{0, 0, 0}});
    UnitProto proto{make_f5_input(make_sph("A", 1.0), b, false)};
    this->print_csg_regions(proto);
    auto const& u = this->build_input(proto);

    Real3 const probe{3, 0, 0};
    auto const& v = find_vol(u, "V");
    EXPECT_TRUE(static_cast<bool>(v.bbox)) << "V has a NULL bbox";
    EXPECT_TRUE(v.bbox && is_inside(v.bbox, probe))
        << "probe " << repr(probe) << " not inside V's bbox " << v.bbox;
    EXPECT_EQ("V", this->locate(probe));
    this->track_x({-9, 0, 0});
}

// Bonus: F4's V as the boundary of a daughter universe placed in a parent
TEST_F(BzDemoTest, f4_as_daughter_boundary)
{
    auto daughter = std::make_shared<UnitProto>([] {
        UnitProto::Input inp;
        auto a = make_sph("A", 1.0);
        auto c = make_sph("C", 2.0);
        auto b = make_cube("B", 5.0);
        auto x = make_subtraction("X", b, c);
        inp.boundary.interior = make_subtraction("V", a, x);
        inp.background.fill = GeoMaterialId{1};
        inp.label = "daughter";
        return inp;
    }());
    UnitProto::Input inp;
    inp.boundary.interior = make_sph("bound", 10.0);
    inp.boundary.zorder = ZOrder::media;
    inp.label = "parent";
    inp.daughters.push_back({daughter, Translation{{0, 0, 0}}});
    inp.background.fill = GeoMaterialId{2};
    UnitProto proto{std::move(inp)};
    try
    {
        InputBuilder build_input([&] {
            InputBuilder::Options opts;
            opts.tol = tol_;
            return opts;
        }());
        last_input_ = build_input(proto);
        for (auto const& vu : last_input_.universes)
        {
            auto const& u = std::get<UnitInput>(vu);
            cout << "  [UnitInput] unit '" << u.label << "' bbox = " << u.bbox
                 << endl;
            for (auto i : range(u.volumes.size()))
            {
                cout << "  [UnitInput]   volumes[" << i << "] label='"
                     << u.volumes[i].label << "' bbox=" << u.volumes[i].bbox
                     << endl;
            }
        }
        EXPECT_EQ("daughter", this->locate({0, 0, 0}));
    }
    catch (std::exception const& e)
    {
        cout << "  [f4_as_daughter_boundary] EXCEPTION: " << e.what() << endl;
        ADD_FAILURE() << "construction threw: " << e.what();
    }
}

//---------------------------------------------------------------------------//
}  // namespace test
}  // namespace orangeinp
}  // namespace celeritas
