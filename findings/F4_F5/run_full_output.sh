#!/bin/sh
# usage: run_test_with_src.sh <worktree> <test .cc relative to test/> [extra .cc from the worktree ...]
# Rebuilds ONE existing gtest TU against the headers (and listed .cc files) of <worktree>, linking the prebuilt libraries of
# /repo/_build for everything else, and runs it.  Used to confirm that a seeded change passes the existing tests it touches.
W=$1; T=$2; shift 2
B=/repo/_build
OUT=$(mktemp -d /tmp/rtws.XXXXXX)
EXTRA=""
for f in "$@"; do EXTRA="$EXTRA $W/$f"; done
g++ -Wno-error -O1 -DNDEBUG -std=c++17 -fopenmp -DGTEST_LINKED_AS_SHARED_LIBRARY=1 -w \
  -I"$W/test" -I$B/test -I"$W/src" -I$B/include -isystem /root/miniconda/include \
  "$W/test/$T" $EXTRA -o $OUT/t \
  -Wl,-rpath,$B/test/celeritas:$B/lib:$B/test/orange:$B/test/geocel:$B/test/corecel:$B/test:/root/miniconda/lib \
  $B/test/celeritas/libtestcel_celeritas.so $B/test/orange/libtestcel_orange.so $B/test/geocel/libtestcel_geocel.so $B/lib/libceleritas.so $B/lib/liborange.so \
  $B/test/corecel/libtestcel_core.so $B/test/libtestcel_harness.so /root/miniconda/lib/libgtest.so.1.11.0 $B/lib/libgeocel.so $B/lib/libcorecel.so \
  -Wl,-rpath-link,$B/test/orange:$B/test/geocel 2>$OUT/err.log || { grep -m20 -A3 "error" $OUT/err.log; rm -rf $OUT; exit 2; }
cd $B/test/$(dirname $(dirname $T))/ 2>/dev/null || cd $OUT
$OUT/t 2>&1 > /tmp/bz_out.txt 2>&1
rc=$?
rm -rf $OUT
exit $rc
