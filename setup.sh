#!/bin/sh
# offline setup: tool presence + byte-compile the framework; nothing depending on /repo is cached
set -e
for t in clang++-14 g++ gcc cbmc z3 z3-new cvc5 python3-vt; do command -v $t >/dev/null || { echo "missing tool $t"; exit 1; }; done
python3-vt -c "import z3; assert z3.get_version_string().startswith('5.')"
python3-vt -m compileall -q engine obligations >/dev/null
mkdir -p build evidence/replay
echo setup-ok
