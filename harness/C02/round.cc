// C02: one track-initialisation round over the real executors, from an arbitrary state
#include "minicore.hh"

#include "celeritas/track/detail/LocateAliveExecutor.hh"
#include "celeritas/track/detail/ProcessSecondariesExecutor.hh"
#include "celeritas/track/detail/InitTracksExecutor.hh"
#include "celeritas/track/detail/TrackInitAlgorithms.hh"
// host instantiations (std::remove_if / exclusive_scan / stable_partition as lowered by clang)
#include "celeritas/track/detail/TrackInitAlgorithms.cc"

using namespace celeritas;
using namespace celeritas::detail;

#ifndef VERIF_N
#    define VERIF_N 3
#endif
constexpr int N = VERIF_N;
constexpr int S = 2;
constexpr int K = 2 * VERIF_N;
constexpr int E = 2;
using MC = verif::MiniCore<N, K, S, E>;

namespace
{
//! number of valid secondaries of slot i (reference: counted from the arrays)
inline int valid_secs(MC& mc, int i)
{
    int c = 0;
    auto sp = mc.ph_state[i].secondaries;
    for (int k = 0; k < S; ++k)
        if (k < (int)sp.size() && sp[k])
            ++c;
    return c;
}

//! any track order policy (none, init_charge, every reindex_* policy)
inline TrackOrder any_order()
{
    unsigned o = verif_nondet_u32("track_order");
    verif_assume(o < static_cast<unsigned>(TrackOrder::size_));
    return static_cast<TrackOrder>(o);
}

inline void arbitrary_state(MC& mc, TrackOrder order)
{
    mc.params.init.track_order = order;
    for (int i = 0; i < N; ++i)
    {
        mc.symbolic_slot(i);
        mc.symbolic_secondaries(i);
        // statuses that exist between the post-step kernels and track initialisation
        verif_assume(mc.s_status[i] == TrackStatus::inactive || mc.s_status[i] == TrackStatus::alive
                     || mc.s_status[i] == TrackStatus::killed);
    }
    for (int e = 0; e < E; ++e)
    {
        mc.i_counters[e] = verif_nondet_u32("track_counter");
        verif_assume(mc.i_counters[e] < 1000000);
    }
}
}  // namespace

// C02.1: LocateAlive over all slots + remove_if_alive + exclusive_scan_counts
VERIF_OBLIGATION(obl_c02_locate)
{
    MC mc;
    TrackOrder order = any_order();
    bool charge = order == TrackOrder::init_charge;
    arbitrary_state(mc, order);
    LocateAliveExecutor locate{verif::params_ptr(mc), verif::state_ptr(mc)};
    for (int i = 0; i < N; ++i)
        locate(ThreadId(i));
    size_type nv = remove_if_alive(mc.state.init.vacancies, StreamId{0});
    size_type nsec = exclusive_scan_counts(mc.state.init.secondary_counts, StreamId{0});
    verif_reach("locate");
    // reference
    int exp_vac = 0, exp_sec = 0;
    int prefix[N + 1];
    for (int i = 0; i < N; ++i)
    {
        bool inactive = mc.s_status[i] == TrackStatus::inactive;
        bool alive = mc.s_status[i] == TrackStatus::alive;
        int ns = inactive ? 0 : valid_secs(mc, i);
        bool reuse = !alive && ns > 0 && !charge;  // dying parent's slot takes its first secondary in place
        bool vacant = !alive && !reuse;
        prefix[i] = exp_sec;
        exp_sec += ns - (reuse ? 1 : 0);
        if (vacant)
        {
            verif_assert(exp_vac < (int)nv && mc.i_vacancies[exp_vac] == TrackSlotId(i), "vacancies lists exactly the empty slots, ascending");
            ++exp_vac;
        }
    }
    prefix[N] = exp_sec;
    verif_assert((int)nv == exp_vac, "num_vacancies = number of empty slots");
    verif_assert((int)nsec == exp_sec, "num_secondaries = valid secondaries needing an initializer");
    for (int i = 0; i <= N; ++i)
        verif_assert((int)mc.i_counts[i] == prefix[i], "secondary_counts = exclusive prefix sums");
}


//---------------------------------------------------------------------------//
// C02.2 / C02.3 / C02.4: a full round (mirrors ExtendFromSecondariesAction::step_impl then
// InitializeTracksAction::step for TrackOrder::none) from an arbitrary state
namespace
{
struct Pre
{
    TrackStatus status[N];
    TrackId track[N];
    EventId event[N];
    ParticleId pid[N];
    real_type energy[N];
    Real3 pos[N];
    Secondary sec[N][S];
    unsigned nsec[N];
    TrackId::size_type counter[E];
};

inline void snapshot(MC& mc, Pre& pre)
{
    for (int i = 0; i < N; ++i)
    {
        pre.status[i] = mc.s_status[i];
        pre.track[i] = mc.s_track[i];
        pre.event[i] = mc.s_event[i];
        pre.pid[i] = mc.p_id[i];
        pre.energy[i] = mc.p_energy[i];
        pre.pos[i] = mc.g_pos[i];
        pre.nsec[i] = mc.ph_state[i].secondaries.size();
        for (int k = 0; k < S; ++k)
            pre.sec[i][k] = mc.sec_storage[i * S + k];
    }
    for (int e = 0; e < E; ++e)
        pre.counter[e] = mc.i_counters[e];
}

//! arbitrary queue of pending initializers [0, ninit0)
inline size_type arbitrary_queue(MC& mc)
{
    size_type ninit0 = verif_nondet_u32("num_initializers");
    verif_assume(ninit0 <= (size_type)K);
    for (int q = 0; q < K; ++q)
    {
        TrackInitializer& ti = mc.i_initializers[q];
        unsigned ev = verif_nondet_u32("q_event");
        verif_assume(ev < (unsigned)E);
        ti.sim.track_id = TrackId{verif_nondet_u32("q_track")};
        ti.sim.parent_id = TrackId{verif_nondet_u32("q_parent")};
        ti.sim.event_id = EventId{ev};
        ti.sim.time = MC::nonneg("q_time");
        unsigned pid = verif_nondet_u32("q_particle");
        verif_assume(pid < (unsigned)MC::P);
        ti.particle.particle_id = ParticleId{pid};
        ti.particle.energy = units::MevEnergy{MC::nonneg("q_energy")};
        for (int d = 0; d < 3; ++d)
        {
            ti.geo.pos[d] = MC::fin("q_pos");
            ti.geo.dir[d] = MC::fin("q_dir");
        }
    }
    return ninit0;
}
}  // namespace

VERIF_OBLIGATION(obl_c02_process)
{
    MC mc;
    arbitrary_state(mc, TrackOrder::none);
    size_type ninit0 = arbitrary_queue(mc);
    Pre pre;
    snapshot(mc, pre);
    TrackInitializer q0[K];
    for (int q = 0; q < K; ++q)
        q0[q] = mc.i_initializers[q];

    // --- ExtendFromSecondariesAction::step_impl (host), sequence mirrored
    LocateAliveExecutor locate{verif::params_ptr(mc), verif::state_ptr(mc)};
    for (int i = 0; i < N; ++i)
        locate(ThreadId(i));
    CoreStateCounters& c = mc.counters;
    c.num_initializers = ninit0;
    c.num_vacancies = remove_if_alive(mc.state.init.vacancies, StreamId{0});
    c.num_secondaries = exclusive_scan_counts(mc.state.init.secondary_counts, StreamId{0});
    c.num_initializers += c.num_secondaries;
    verif_assume(c.num_initializers <= (size_type)K);  // capacity not exceeded (the exceeding case is C16.5)
    c.num_alive = N - c.num_vacancies;
    ProcessSecondariesExecutor process{verif::params_ptr(mc), verif::state_ptr(mc), c};
    for (int i = 0; i < N; ++i)
    {
        process(ThreadId(i));
    }
    verif_reach("process");

    // --- specification
    int pos = (int)ninit0;  // next initializer index expected
    int created[E];
    for (int e = 0; e < E; ++e)
        created[e] = 0;
    TrackId newid[N * S];
    EventId newev[N * S];
    int nnew = 0;
    int alive_cnt = 0, vac_cnt = 0;
    for (int i = 0; i < N; ++i)
    {
        bool was_inactive = pre.status[i] == TrackStatus::inactive;
        bool was_alive = pre.status[i] == TrackStatus::alive;
        bool reused = false;
        for (int k = 0; k < S; ++k)
        {
            if (was_inactive || k >= (int)pre.nsec[i] || !pre.sec[i][k])
                continue;
            Secondary const& s = pre.sec[i][k];
            TrackId got_id;
            if (!was_alive && !reused)
            {
                // first secondary of a dying parent is born in the parent's slot
                reused = true;
                verif_assert(mc.s_status[i] == TrackStatus::initializing, "dying parent's slot holds its first secondary (initializing)");
                verif_assert(mc.s_parent[i] == pre.track[i] && mc.s_event[i] == pre.event[i], "in-place secondary: parent id / event of the dying track");
                verif_assert(mc.p_id[i] == s.particle_id && mc.p_energy[i] == s.energy.value(), "in-place secondary carries the secondary's particle and energy");
                verif_assert(mc.s_steps[i] == 0, "new track starts at step 0");
                got_id = mc.s_track[i];
            }
            else
            {
                verif_assert(pos < (int)c.num_initializers, "one initializer per remaining secondary");
                TrackInitializer const& ti = mc.i_initializers[pos < K ? pos : 0];
                verif_assert(ti.particle.particle_id == s.particle_id && ti.particle.energy == s.energy, "initializer carries the secondary's particle and energy");
                verif_assert(ti.sim.parent_id == pre.track[i] && ti.sim.event_id == pre.event[i], "initializer: parent id / event of the emitting track");
                verif_assert(ti.geo.pos[0] == pre.pos[i][0] && ti.geo.pos[1] == pre.pos[i][1] && ti.geo.pos[2] == pre.pos[i][2], "initializer starts at the parent's position");
                verif_assert(ti.geo.dir[0] == s.direction[0] && ti.geo.dir[1] == s.direction[1] && ti.geo.dir[2] == s.direction[2], "initializer direction = secondary direction");
                int off = (int)c.num_initializers - pos;
                if (off <= N)
                    verif_assert(mc.i_parents[N - off] == TrackSlotId(i), "parents[] records the emitting slot for InitTracks");
                got_id = ti.sim.track_id;
                ++pos;
            }
            unsigned ev = pre.event[i].unchecked_get();
            verif_assert(got_id.unchecked_get() >= pre.counter[ev] && got_id.unchecked_get() < pre.counter[ev] + (unsigned)(N * S), "new track id taken from the event counter");
            newid[nnew] = got_id;
            newev[nnew] = pre.event[i];
            ++nnew;
            ++created[ev];
        }
        if (was_alive)
        {
            ++alive_cnt;
            verif_assert(mc.s_status[i] == TrackStatus::alive && mc.s_track[i] == pre.track[i] && mc.p_energy[i] == pre.energy[i], "alive tracks untouched");
        }
        else if (!reused)
        {
            ++vac_cnt;
            verif_assert(mc.s_status[i] == TrackStatus::inactive, "finished tracks without in-place secondary become inactive");
        }
    }
    verif_assert(pos == (int)c.num_initializers, "exactly num_secondaries initializers appended");
    for (int q = 0; q < K; ++q)
        if (q < (int)ninit0)
            verif_assert(mc.i_initializers[q].sim.track_id == q0[q].sim.track_id && mc.i_initializers[q].particle.energy == q0[q].particle.energy, "queued initializers not overwritten");
    for (int a = 0; a < N * S; ++a)
        for (int b = a + 1; b < N * S; ++b)
            if (b < nnew && newev[a] == newev[b])
                verif_assert(newid[a] != newid[b], "track ids unique within the event");
    for (int e = 0; e < E; ++e)
        verif_assert(mc.i_counters[e] == pre.counter[e] + (unsigned)created[e], "event track counter advanced by the number of tracks created");
    verif_assert((int)c.num_vacancies == vac_cnt && (int)c.num_alive == N - vac_cnt, "num_vacancies / num_alive equal the true counts");
}

//---------------------------------------------------------------------------//
// C02.2 (inductive form): ONE ProcessSecondariesExecutor call for slot `tid` from an arbitrary state that satisfies
// the post-condition of locate + scan (C02.1): offset = num_secondaries - secondary_counts[tid] >= own initializer need
VERIF_OBLIGATION(obl_c02_process_slot)
{
    MC mc;
    TrackOrder order = any_order();
    bool charge = order == TrackOrder::init_charge;
    arbitrary_state(mc, order);
    size_type ninit0 = arbitrary_queue(mc);
    constexpr int tid = 0;
    Pre pre;
    snapshot(mc, pre);
    TrackInitializer q0[K];
    TrackSlotId par0[N];
    for (int q = 0; q < K; ++q)
        q0[q] = mc.i_initializers[q];
    for (int i = 0; i < N; ++i)
    {
        unsigned p = verif_nondet_u32("parents");
        verif_assume(p <= (unsigned)N);
        mc.i_parents[i] = p < (unsigned)N ? TrackSlotId(p) : TrackSlotId{};
        par0[i] = mc.i_parents[i];
    }
    // own need: valid secondaries minus the in-place one
    bool inactive = pre.status[tid] == TrackStatus::inactive;
    bool alive = pre.status[tid] == TrackStatus::alive;
    int nvalid = inactive ? 0 : valid_secs(mc, tid);
    // same rule as LocateAliveExecutor (checked in C02.1): the first secondary of a dying parent is born in place for every
    // track order except init_charge
    bool reuse = !alive && nvalid > 0 && !charge;
    int need = nvalid - (reuse ? 1 : 0);
    // counters as produced by the scan: total, this slot's exclusive prefix, total initializers (already += total)
    size_type total = verif_nondet_u32("num_secondaries");
    size_type prefix = verif_nondet_u32("prefix");
    verif_assume(total <= (size_type)(N * S) && prefix <= total && prefix + need <= total);
    verif_assume(ninit0 + total <= (size_type)K);
    mc.i_counts[tid] = prefix;
    CoreStateCounters& c = mc.counters;
    c.num_secondaries = total;
    c.num_initializers = ninit0 + total;
    ProcessSecondariesExecutor process{verif::params_ptr(mc), verif::state_ptr(mc), c};
    process(ThreadId(tid));
    verif_reach("process_slot");

    int j = 0;  // rank among this slot's initializer-bound secondaries
    bool used_slot = false;
    unsigned ev = pre.event[tid].unchecked_get();
    int created = 0;
    for (int k = 0; k < S; ++k)
    {
        if (inactive || k >= (int)pre.nsec[tid] || !pre.sec[tid][k])
            continue;
        Secondary const& s = pre.sec[tid][k];
        TrackId got;
        if (reuse && !used_slot)
        {
            used_slot = true;
            verif_assert(mc.s_status[tid] == TrackStatus::initializing && mc.s_steps[tid] == 0, "in-place secondary: slot re-initialised");
            verif_assert(mc.s_parent[tid] == pre.track[tid] && mc.s_event[tid] == pre.event[tid], "in-place secondary: parent id / event");
            verif_assert(mc.p_id[tid] == s.particle_id && mc.p_energy[tid] == s.energy.value(), "in-place secondary: particle / energy of the secondary");
            got = mc.s_track[tid];
        }
        else
        {
            int idx = (int)ninit0 + (int)prefix + j;  // = num_initializers - offset + j
            TrackInitializer const& ti = mc.i_initializers[idx];
            verif_assert(ti.particle.particle_id == s.particle_id && ti.particle.energy == s.energy, "initializer at its scan position carries the secondary");
            verif_assert(ti.sim.parent_id == pre.track[tid] && ti.sim.event_id == pre.event[tid], "initializer parent id / event");
            verif_assert(ti.geo.pos[0] == pre.pos[tid][0] && ti.geo.pos[1] == pre.pos[tid][1] && ti.geo.pos[2] == pre.pos[tid][2], "initializer position = parent position");
            verif_assert(ti.geo.dir[0] == s.direction[0] && ti.geo.dir[1] == s.direction[1] && ti.geo.dir[2] == s.direction[2], "initializer direction = secondary direction");
            int off = (int)total - (int)prefix - j;
            if (off <= N && (!charge || alive))
                verif_assert(mc.i_parents[N - off] == TrackSlotId(tid), "parents[] entry for InitTracks");
            got = ti.sim.track_id;
            ++j;
        }
        verif_assert(got.unchecked_get() == pre.counter[ev] + (unsigned)created, "track ids are consecutive values of the event counter");
        ++created;
    }
    verif_assert(j == need, "as many initializers as secondaries not born in place");
    for (int e = 0; e < E; ++e)
        verif_assert(mc.i_counters[e] == pre.counter[e] + ((unsigned)e == ev ? (unsigned)created : 0u), "event counters: +created for this event only");
    // frame: every initializer outside [ninit0+prefix, ninit0+prefix+need) is untouched; other slots untouched
    for (int q = 0; q < K; ++q)
        if (q < (int)(ninit0 + prefix) || q >= (int)(ninit0 + prefix) + need)
            verif_assert(mc.i_initializers[q].sim.track_id == q0[q].sim.track_id && mc.i_initializers[q].sim.parent_id == q0[q].sim.parent_id
                             && mc.i_initializers[q].particle.energy == q0[q].particle.energy && mc.i_initializers[q].particle.particle_id == q0[q].particle.particle_id,
                         "no initializer outside this slot's scan range is written");
    for (int i = 1; i < N; ++i)
        verif_assert(mc.s_status[i] == pre.status[i] && mc.s_track[i] == pre.track[i] && mc.p_id[i] == pre.pid[i] && mc.p_energy[i] == pre.energy[i]
                         && mc.g_pos[i][0] == pre.pos[i][0],
                     "other slots untouched");
    if (alive)
        verif_assert(mc.s_status[tid] == TrackStatus::alive && mc.s_track[tid] == pre.track[tid] && mc.p_energy[tid] == pre.energy[tid], "alive parent untouched");
    if (!alive && !reuse)
        verif_assert(mc.s_status[tid] == TrackStatus::inactive, "finished track without secondaries becomes inactive");
}

//---------------------------------------------------------------------------//
// C02.3 (inductive form): ONE InitTracksExecutor thread, TrackOrder::none
VERIF_OBLIGATION(obl_c02_init_thread)
{
    MC mc;
    arbitrary_state(mc, TrackOrder::none);
    size_type ninit = arbitrary_queue(mc);
    Pre pre;
    snapshot(mc, pre);
    // vacancies: distinct slot ids (post-condition of C02.1), nv of them
    size_type nv = verif_nondet_u32("num_vacancies");
    verif_assume(nv <= (size_type)N);
    for (int i = 0; i < N; ++i)
    {
        unsigned v = verif_nondet_u32("vacancy");
        verif_assume(v < (unsigned)N);
        mc.i_vacancies[i] = TrackSlotId(v);
        for (int k = 0; k < i; ++k)
            verif_assume(mc.i_vacancies[k] != mc.i_vacancies[i]);
        unsigned p = verif_nondet_u32("parents");
        verif_assume(p < (unsigned)N);
        mc.i_parents[i] = TrackSlotId(p);
    }
    for (int i = 0; i < MC::V; ++i)
    {
        unsigned m = verif_nondet_u32("geo_material");
        verif_assume(m <= (unsigned)MC::M);
        mc.geo_mat[i] = m < (unsigned)MC::M ? MaterialId{m} : MaterialId{};
    }
    size_type num_new = nv < ninit ? nv : ninit;
    unsigned t = verif_nondet_u32("thread");
    verif_assume(t < num_new);
    CoreStateCounters& c = mc.counters;
    c.num_initializers = ninit;
    c.num_vacancies = nv;
    c.num_secondaries = verif_nondet_u32("num_secondaries");
    verif_assume(c.num_secondaries <= ninit);
    // the slot taken must be vacant (post-condition of C02.1/C02.2: vacancies list only inactive slots)
    unsigned vslot = mc.i_vacancies[nv - 1 - t].unchecked_get();
    verif_assume(mc.s_status[vslot] == TrackStatus::inactive);
    TrackInitializer const init = mc.i_initializers[ninit - 1 - t];
    // a parent recorded for this thread holds the geometry the initializer was created from (C02.2)
    if (t < c.num_secondaries)
    {
        unsigned ps = mc.i_parents[N - 1 - t].unchecked_get();
        verif_assume(mc.g_pos[ps][0] == init.geo.pos[0] && mc.g_pos[ps][1] == init.geo.pos[1] && mc.g_pos[ps][2] == init.geo.pos[2]);
        verif_assume(mc.g_vol[ps] != LocalVolumeId{0});
    }
    InitTracksExecutor run{verif::params_ptr(mc), verif::state_ptr(mc), num_new, c};
    run(ThreadId(t));
    verif_reach("init_thread");
    verif_assert(mc.s_track[vslot] == init.sim.track_id && mc.s_parent[vslot] == init.sim.parent_id && mc.s_event[vslot] == init.sim.event_id,
                 "vacancy nv-1-t receives initializer ninit-1-t (ids)");
    verif_assert(mc.p_id[vslot] == init.particle.particle_id && mc.p_energy[vslot] == init.particle.energy.value(), "... particle and energy");
    verif_assert(mc.s_status[vslot] == TrackStatus::initializing || mc.s_status[vslot] == TrackStatus::errored, "new track is initializing (or errored if geometry/material lookup failed)");
    verif_assert(mc.s_steps[vslot] == 0, "step counter starts at 0");
    for (int i = 0; i < N; ++i)
        if ((unsigned)i != vslot)
            verif_assert(mc.s_status[i] == pre.status[i] && mc.s_track[i] == pre.track[i] && mc.p_id[i] == pre.pid[i] && mc.p_energy[i] == pre.energy[i],
                         "no other slot is written (no live track overwritten)");
}

//---------------------------------------------------------------------------//
// C06.2/.3: history independence of track initialisation: after InitTracksExecutor every per-slot field of the
// sim / particle / physics / material / geometry-level state of the initialised slot equals a function of the
// initializer (and of the located volume) only -- the slot's previous contents (symbolic here) cannot leak into the event
VERIF_OBLIGATION(obl_c06_init_overwrites)
{
    MC mc;
    arbitrary_state(mc, TrackOrder::none);
    size_type ninit = arbitrary_queue(mc);
    verif_assume(ninit >= 1);
    constexpr int vslot = 1;
    mc.s_status[vslot] = TrackStatus::inactive;
    mc.i_vacancies[0] = TrackSlotId(vslot);
    for (int i = 0; i < MC::V; ++i)
    {
        unsigned m = verif_nondet_u32("geo_material");
        verif_assume(m <= (unsigned)MC::M);
        mc.geo_mat[i] = m < (unsigned)MC::M ? MaterialId{m} : MaterialId{};
    }
    CoreStateCounters& c = mc.counters;
    c.num_initializers = ninit;
    c.num_vacancies = 1;
    c.num_secondaries = 0;  // primary: geometry located from the initializer position (cut stub)
    TrackInitializer const init = mc.i_initializers[ninit - 1];
    InitTracksExecutor run{verif::params_ptr(mc), verif::state_ptr(mc), 1, c};
    run(ThreadId(0));
    verif_reach("init_overwrites");
    verif_assert(mc.s_track[vslot] == init.sim.track_id && mc.s_parent[vslot] == init.sim.parent_id && mc.s_event[vslot] == init.sim.event_id
                     && mc.s_time[vslot] == init.sim.time,
                 "sim ids and time come from the initializer");
    verif_assert(mc.s_steps[vslot] == 0 && mc.s_loop[vslot] == 0 && mc.s_step[vslot] == 0 && !mc.s_along[vslot], "step counters, step length and along-step action reset");
    verif_assert(mc.p_id[vslot] == init.particle.particle_id && mc.p_energy[vslot] == init.particle.energy.value(), "particle state from the initializer");
    verif_assert(mc.g_pos[vslot][0] == init.geo.pos[0] && mc.g_pos[vslot][1] == init.geo.pos[1] && mc.g_pos[vslot][2] == init.geo.pos[2]
                     && mc.g_dir[vslot][0] == init.geo.dir[0] && mc.g_dir[vslot][2] == init.geo.dir[2],
                 "geometry position/direction from the initializer");
    verif_assert(!mc.g_surface_level[vslot] && !mc.g_next_level[vslot] && mc.g_level[vslot] == LevelId{0}, "geometry surface / next-step cache cleared");
    if (mc.s_status[vslot] == TrackStatus::initializing)
    {
        verif_assert(!mc.s_post[vslot], "post-step action cleared");
        verif_assert(mc.ph_state[vslot].interaction_mfp == 0, "remaining MFP reset so that it is re-sampled at the first pre-step");
        verif_assert(mc.m_state[vslot].material_id == mc.geo_mat[mc.g_vol[vslot].unchecked_get()], "material is the located volume's material");
    }
    else
        verif_assert(mc.s_status[vslot] == TrackStatus::errored && mc.s_post[vslot] == ActionId{2}, "failed initialisation: errored with the tracking-cut action");
}
