// C13 harness: the real XorwowRngEngine over hand-laid params/state, tables from the real XorwowRngParams.cc
#include "verif_celer.hh"

#include "celeritas/random/XorwowRngEngine.hh"
#include "celeritas/random/XorwowRngParams.hh"
#include "celeritas/random/detail/GenerateCanonical32.hh"
// the real translation unit holding the two 32 x 160-bit tables
#include "celeritas/random/XorwowRngParams.cc"

using namespace celeritas;
using uint = unsigned int;

namespace
{
struct Fixture
{
    NativeCRef<XorwowRngParamsData> params;
    XorwowState st;
    NativeRef<XorwowRngStateData> state;

    Fixture()
    {
        params.seed = {verif_nondet_u32("seed")};
        // get_jump_poly() is a non-static member that only returns its function-local static table
        alignas(XorwowRngParams) static char raw_params[sizeof(XorwowRngParams)];
        auto* rp = reinterpret_cast<XorwowRngParams*>(raw_params);
        params.jump = rp->get_jump_poly();
        params.jump_subsequence = rp->get_jump_subsequence_poly();
        for (int i = 0; i < 5; ++i)
            st.xorstate[i] = verif_nondet_u32("s");
        st.weylstate = verif_nondet_u32("w");
        // Collection<.., reference, native> is {Span<T>} = {T*, size}
        static_assert(sizeof(state.state) == sizeof(void*) + sizeof(std::size_t), "layout");
        struct Raw
        {
            XorwowState* p;
            std::size_t n;
        } raw{&st, 1};
        std::memcpy(&state.state, &raw, sizeof(raw));
    }
    XorwowRngEngine engine() { return XorwowRngEngine(params, state, TrackSlotId{0}); }
};

inline void spec_next(uint (&s)[5])
{
    uint t = s[0] ^ (s[0] >> 2);
    s[0] = s[1];
    s[1] = s[2];
    s[2] = s[3];
    s[3] = s[4];
    s[4] = (s[4] ^ (s[4] << 4)) ^ (t ^ (t << 1));
}
}  // namespace

// C13.7: operator() = next(); weyl += 362437; returns weyl' + x4'  (Marsaglia xorwow)
VERIF_OBLIGATION(obl_c13_draw)
{
    Fixture f;
    uint s[5];
    for (int i = 0; i < 5; ++i)
        s[i] = f.st.xorstate[i];
    uint w = f.st.weylstate;
    auto e = f.engine();
    uint r = e();
    spec_next(s);
    verif_reach("draw");
    for (int i = 0; i < 5; ++i)
        verif_assert(f.st.xorstate[i] == s[i], "state after one draw is T(state)");
    verif_assert(f.st.weylstate == w + 362437u, "weyl advanced once");
    verif_assert(r == w + 362437u + s[4], "output = weyl' + x4'");
    verif_observe_u64(r);
}

// C13.6: discard(n): Weyl part advances by n*362437 (mod 2^32) for every 64-bit n; xorshift part cut
// (the jump is covered by the irsym obligations) -- here via the real discard with count whose low digits are 0
// is not possible, so the Weyl arithmetic is compared on the full discard with n < 4 (xorshift part = n x next)
VERIF_OBLIGATION(obl_c13_discard_small)
{
    Fixture f;
    uint n = verif_nondet_u32("n");
    verif_assume(n < 4);
    uint s[5];
    for (int i = 0; i < 5; ++i)
        s[i] = f.st.xorstate[i];
    uint w = f.st.weylstate;
    auto e = f.engine();
    e.discard(n);
    for (uint k = 0; k < n; ++k)
        spec_next(s);
    verif_reach("discard");
    for (int i = 0; i < 5; ++i)
        verif_assert(f.st.xorstate[i] == s[i], "discard(n) state = T^n(state), n<4");
    verif_assert(f.st.weylstate == w + n * 362437u, "discard(n) weyl = w + n*c");
}

// C13.8: GenerateCanonical32<double> over a stub generator returning arbitrary 32-bit words
namespace
{
struct WordGen
{
    using result_type = unsigned int;
    static constexpr result_type min() { return 0u; }
    static constexpr result_type max() { return 0xffffffffu; }
    unsigned int a, b;
    int calls = 0;
    result_type operator()() { return calls++ == 0 ? a : b; }
};
}  // namespace

VERIF_OBLIGATION(obl_c13_canonical_double)
{
    WordGen g{verif_nondet_u32("upper"), verif_nondet_u32("lower")};
    double r = detail::GenerateCanonical32<double>()(g);
    verif_reach("canonical");
    verif_assert(g.calls == 2, "two 32-bit draws");
    verif_assert(r >= 0.0, "canonical >= 0");
    verif_assert(r < 1.0, "canonical < 1");
    // exact 53-bit integer scaled by 2^-53
    double scaled = r * 9007199254740992.0;
    verif_assert(scaled == static_cast<double>(static_cast<unsigned long long>(scaled)), "r*2^53 integral");
    verif_observe_f64(r);
}

VERIF_OBLIGATION(obl_c13_canonical_float)
{
    WordGen g{verif_nondet_u32("word"), 0};
    float r = detail::GenerateCanonical32<float>()(g);
    verif_reach("canonical");
    verif_assert(r >= 0.0f, "canonical >= 0");
    verif_assert(r <= 1.0f, "canonical <= 1");
    verif_observe_f64(r);
}

//---------------------------------------------------------------------------//
// Engine B (bit-vector) obligations: the jump polynomials, for ALL 2^160 states
namespace
{
struct Fixture2
{
    NativeCRef<XorwowRngParamsData> params;
    XorwowState st[2];
    NativeRef<XorwowRngStateData> state;

    Fixture2()
    {
        params.seed = {0};
        alignas(XorwowRngParams) static char raw_params[sizeof(XorwowRngParams)];
        auto* rp = reinterpret_cast<XorwowRngParams*>(raw_params);
        params.jump = rp->get_jump_poly();
        params.jump_subsequence = rp->get_jump_subsequence_poly();
        for (int i = 0; i < 5; ++i)
            st[0].xorstate[i] = verif_nondet_u32("s");
        st[0].weylstate = verif_nondet_u32("w");
        st[1] = st[0];
        struct Raw
        {
            XorwowState* p;
            std::size_t n;
        } raw{st, 2};
        std::memcpy(&state.state, &raw, sizeof(raw));
    }
    XorwowRngEngine engine(unsigned k) { return XorwowRngEngine(params, state, TrackSlotId{k}); }
    void assert_equal(char const* label)
    {
        bool eq = true;
        for (int i = 0; i < 5; ++i)
            eq = eq & (st[0].xorstate[i] == st[1].xorstate[i]);
        verif_assert(eq, label);
    }
};
}  // namespace

// C13.2: jump(jump[0]) == next()
VERIF_OBLIGATION(obl_c13_jump0_is_next)
{
    Fixture2 f;
    f.engine(0).jump(f.params.jump[0]);
    f.engine(1).next();
    verif_reach("jump0");
    f.assert_equal("jump[0] acts as one step T");
}

// C13.3: jump(jump[i+1]) == jump(jump[i])^4   (i is a concrete parameter, 0..30)
VERIF_OBLIGATION(obl_c13_jump_pow4)
{
    Fixture2 f;
    unsigned i = verif_nondet_u32("P:i");
    verif_assume(i < 31);
    f.engine(0).jump(f.params.jump[i + 1]);
    auto e = f.engine(1);
    for (int k = 0; k < 4; ++k)
        e.jump(f.params.jump[i]);
    verif_reach("pow4");
    f.assert_equal("jump[i+1] == jump[i]^4");
}

// C13.4a: jump_subsequence[0] == jump[31]^32   (2^67 = 32 * 4^31)
VERIF_OBLIGATION(obl_c13_jsub0)
{
    Fixture2 f;
    f.engine(0).jump(f.params.jump_subsequence[0]);
    auto e = f.engine(1);
    for (int k = 0; k < 32; ++k)
        e.jump(f.params.jump[31]);
    verif_reach("jsub0");
    f.assert_equal("jump_subsequence[0] == jump[31]^32 (2^67 steps)");
}

// C13.4b: jump_subsequence[i+1] == jump_subsequence[i]^4
VERIF_OBLIGATION(obl_c13_jsub_pow4)
{
    Fixture2 f;
    unsigned i = verif_nondet_u32("P:i");
    verif_assume(i < 31);
    f.engine(0).jump(f.params.jump_subsequence[i + 1]);
    auto e = f.engine(1);
    for (int k = 0; k < 4; ++k)
        e.jump(f.params.jump_subsequence[i]);
    verif_reach("jsubpow4");
    f.assert_equal("jump_subsequence[i+1] == jump_subsequence[i]^4");
}
