// C13.5/.6/.9/.10: digit decomposition of discard / discard_subsequence / operator=(Initializer) / reseed_rng.
// XorwowRngEngine::jump(JumpPoly const&) is CUT (body replaced by stub_jump_record): the stub records which table row was
// applied; the polynomial semantics of every row is the subject of the C13.2-.4 obligations (rng.cc).
#include "verif_celer.hh"

#include "celeritas/random/XorwowRngEngine.hh"
#include "celeritas/random/XorwowRngParams.hh"
#include "celeritas/random/RngReseed.hh"
#include "celeritas/random/RngReseed.cc"

using namespace celeritas;
using uint = unsigned int;

namespace
{
constexpr int NS = 2;  // rng states (track slots)
XorwowState g_states[NS];
NativeCRef<XorwowRngParamsData> g_params;
unsigned long long g_sum_step[NS];  // sum of 4^i over applied rows of params.jump, per state
unsigned long long g_sum_sub[NS];  // same for params.jump_subsequence
unsigned g_bad;  // row pointer outside both tables, or row index >= 32
}  // namespace

extern "C" void stub_jump_record(XorwowRngEngine* self, Array<uint, 5> const* poly)
{
    long slot = self->state_ - g_states;
    long i = poly - g_params.jump.data();
    long j = poly - g_params.jump_subsequence.data();
    if (slot < 0 || slot >= NS)
    {
        ++g_bad;
        return;
    }
    if (i >= 0 && i < 32)
        g_sum_step[slot] += 1ull << (2 * i);
    else if (j >= 0 && j < 32)
        g_sum_sub[slot] += 1ull << (2 * j);
    else
        ++g_bad;
}

namespace
{
struct Fix
{
    NativeRef<XorwowRngStateData> state;
    Fix()
    {
        g_params.seed = {verif_nondet_u32("seed")};
        for (int k = 0; k < NS; ++k)
        {
            for (int i = 0; i < 5; ++i)
                g_states[k].xorstate[i] = verif_nondet_u32("s");
            g_states[k].weylstate = verif_nondet_u32("w");
            g_sum_step[k] = g_sum_sub[k] = 0;
        }
        g_bad = 0;
        state.state.storage_.data = {g_states, (std::size_t)NS};
    }
};
}  // namespace

// C13.5 + C13.6: discard(n) applies rows with sum_i times_i 4^i == n (every 64-bit n), touches no subsequence row, and
// advances the Weyl value by (uint32)n * 362437
VERIF_OBLIGATION(obl_c13_discard_digits)
{
    Fix f;
    unsigned long long n = verif_nondet_u64("n");
    uint w = g_states[0].weylstate;
    XorwowRngEngine e(g_params, f.state, TrackSlotId{0});
    e.discard(n);
    verif_reach("discard");
    verif_assert(g_bad == 0, "only rows of the two tables are applied, index < 32");
    verif_assert(g_sum_step[0] == n, "discard(n): applied step rows sum to n (base-4 digits)");
    verif_assert(g_sum_sub[0] == 0 && g_sum_step[1] == 0 && g_sum_sub[1] == 0, "no subsequence row, no other state touched");
    verif_assert(g_states[0].weylstate == w + (uint)n * 362437u, "Weyl value advanced by n * 362437 mod 2^32");
}

// C13.9: operator=(Initializer): skips exactly `subsequence` subsequences then `offset` draws (full 64-bit values)
VERIF_OBLIGATION(obl_c13_init_digits)
{
    Fix f;
    XorwowRngEngine::Initializer_t init;
    init.seed = {verif_nondet_u32("init_seed")};
    init.subsequence = verif_nondet_u64("subsequence");
    init.offset = verif_nondet_u64("offset");
    XorwowRngEngine e(g_params, f.state, TrackSlotId{1});
    e = init;
    verif_reach("init");
    verif_assert(g_bad == 0, "only rows of the two tables are applied");
    verif_assert(g_sum_sub[1] == init.subsequence, "initialisation skips exactly `subsequence` subsequences (all 64 bits)");
    verif_assert(g_sum_step[1] == init.offset, "... and exactly `offset` draws");
    verif_assert(g_sum_sub[0] == 0 && g_sum_step[0] == 0, "other states untouched");
}

// C13.10: reseed_rng: slot i of `size` is started at subsequence event * size + i (64-bit), for every event id; no dependence on the stream
VERIF_OBLIGATION(obl_c13_reseed)
{
    Fix f;
    unsigned long long ev = verif_nondet_u64("event");
    verif_assume(ev < (1ull << 40));  // stated range: no 64-bit wrap of event * size
    HostCRef<RngParamsData> const& params = g_params;
    HostRef<RngStateData> const& state = f.state;
    unsigned sid = verif_nondet_u32("stream");
    verif_assume(sid < 16);
    reseed_rng(params, state, StreamId{sid}, UniqueEventId{ev});
    verif_reach("reseed");
    verif_assert(g_bad == 0, "only rows of the two tables are applied");
    for (int i = 0; i < NS; ++i)
    {
        verif_assert(g_sum_sub[i] == ev * NS + i, "slot i starts at subsequence event*size + i");
        verif_assert(g_sum_step[i] == 0, "no extra draws are skipped");
    }
}

// C13.10b: (event, slot) -> event*size + slot is injective for slot < size <= 2^20, event < 2^40 (disjoint 2^67-long segments)
VERIF_OBLIGATION(obl_c13_subsequence_injective)
{
    unsigned long long size = verif_nondet_u64("size"), e1 = verif_nondet_u64("e1"), e2 = verif_nondet_u64("e2"),
                       s1 = verif_nondet_u64("s1"), s2 = verif_nondet_u64("s2");
    verif_assume(size >= 1 && size <= (1ull << 20) && s1 < size && s2 < size && e1 < (1ull << 40) && e2 < (1ull << 40));
    verif_reach("inj");
    if (e1 * size + s1 == e2 * size + s2)
        verif_assert(e1 == e2 && s1 == s2, "distinct (event, slot) pairs get distinct subsequences");
}

//---------------------------------------------------------------------------//
// Variant with the OUTER digit loop jump(count, polys) cut (stub_jump_count): loop-free obligations on which count reaches
// which table from operator=(Initializer) and reseed_rng.  (The digit loop itself is obl_c13_discard_digits.)
namespace
{
unsigned long long g_cnt_step[NS], g_cnt_sub[NS];
unsigned g_calls_step[NS], g_calls_sub[NS];
}  // namespace

extern "C" void stub_jump_count(XorwowRngEngine* self, unsigned long long count, Array<Array<uint, 5>, 32> const* table)
{
    long slot = self->state_ - g_states;
    if (slot < 0 || slot >= NS)
    {
        ++g_bad;
        return;
    }
    if (table == &g_params.jump)
    {
        g_cnt_step[slot] += count;
        ++g_calls_step[slot];
    }
    else if (table == &g_params.jump_subsequence)
    {
        g_cnt_sub[slot] += count;
        ++g_calls_sub[slot];
    }
    else
        ++g_bad;
}

namespace
{
inline void reset_counts()
{
    for (int k = 0; k < NS; ++k)
    {
        g_cnt_step[k] = g_cnt_sub[k] = 0;
        g_calls_step[k] = g_calls_sub[k] = 0;
    }
}
}  // namespace

VERIF_OBLIGATION(obl_c13_init_calls)
{
    Fix f;
    reset_counts();
    XorwowRngEngine::Initializer_t init;
    init.seed = {verif_nondet_u32("init_seed")};
    init.subsequence = verif_nondet_u64("subsequence");
    init.offset = verif_nondet_u64("offset");
    uint pre[6];
    for (int i = 0; i < 5; ++i)
        pre[i] = g_states[1].xorstate[i];
    XorwowRngEngine e(g_params, f.state, TrackSlotId{1});
    e = init;
    verif_reach("init_calls");
    verif_assert(g_bad == 0, "jumps use only the two parameter tables");
    verif_assert(g_calls_sub[1] == 1 && g_cnt_sub[1] == init.subsequence, "initialisation skips exactly `subsequence` (all 64 bits) subsequences");
    verif_assert(g_calls_step[1] == 1 && g_cnt_step[1] == init.offset, "... then exactly `offset` (all 64 bits) draws");
    verif_assert(g_calls_sub[0] == 0 && g_calls_step[0] == 0, "other states untouched");
    // post-state is a function of the seed only (SplitMix64 expansion): two different pre-states, same result
    uint a[6];
    for (int i = 0; i < 5; ++i)
        a[i] = g_states[1].xorstate[i];
    a[5] = g_states[1].weylstate;
    for (int i = 0; i < 5; ++i)
        g_states[0].xorstate[i] = verif_nondet_u32("other_pre");
    g_states[0].weylstate = verif_nondet_u32("other_pre_w");
    XorwowRngEngine e0(g_params, f.state, TrackSlotId{0});
    e0 = init;
    bool same = g_states[0].weylstate + (uint)init.offset * 0u == a[5] + (uint)0;
    for (int i = 0; i < 5; ++i)
        same = same && g_states[0].xorstate[i] == a[i];
    verif_assert(same, "state after initialisation does not depend on the previous state (history independence)");
}

VERIF_OBLIGATION(obl_c13_reseed_calls)
{
    Fix f;
    reset_counts();
    unsigned long long ev = verif_nondet_u64("event");
    HostCRef<RngParamsData> const& params = g_params;
    HostRef<RngStateData> const& state = f.state;
    unsigned sid = verif_nondet_u32("stream");
    reseed_rng(params, state, StreamId{sid}, UniqueEventId{ev});
    verif_reach("reseed_calls");
    verif_assert(g_bad == 0, "jumps use only the two parameter tables");
    for (int i = 0; i < NS; ++i)
    {
        verif_assert(g_calls_sub[i] == 1 && g_cnt_sub[i] == ev * NS + i, "slot i starts at subsequence event*size + i (64-bit)");
        verif_assert(g_cnt_step[i] == 0, "no extra draws skipped at reseed");
    }
    verif_assert(g_states[0].xorstate[0] == g_states[1].xorstate[0] && g_states[0].weylstate == g_states[1].weylstate,
                 "same seed expansion for every slot (streams differ only by the subsequence)");
}
