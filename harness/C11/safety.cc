// C11.1/.2: CalcSafetyDistance per surface type (REAL mode): the reported safety s is >= 0 and no point of the surface is
// closer than s: for every unit direction u and t > 0 with f_S(pos + t u) = 0:  t >= s.
#include "verif_celer.hh"

#include "orange/surf/detail/AllSurfaces.hh"
#include "orange/univ/detail/SurfaceFunctors.hh"
#include "orange/surf/SimpleQuadric.cc"
#include "orange/surf/GeneralQuadric.cc"

using namespace celeritas;
using namespace celeritas::detail;

namespace
{
constexpr double inf = std::numeric_limits<double>::infinity();
inline double num(char const* n)
{
    return verif_nondet_f64(n);
}
inline Real3 vec(char const* n)
{
    return {num(n), num(n), num(n)};
}
// `hint`: a vector w for which the Cauchy-Schwarz instance (w.u)^2 <= |w|^2 |u|^2 = |w|^2 is handed to the solver as a lemma
// (implied by |u| = 1; sound to add, it only helps the nonlinear solver)
template<class S, class F>
inline void check_safety(S const& surf, F&& f, Real3 const& pos, Real3 const& hint = Real3{0, 0, 0})
{
    double s = CalcSafetyDistance{pos}(surf);
    verif_reach("safety");
    verif_assert(s >= 0, "safety is non-negative");
    if (s == inf)
        return;
    Real3 u = vec("u");
    verif_assume(verif_approx_eq(u[0] * u[0] + u[1] * u[1] + u[2] * u[2], 1.0, 1.0));
    double wu = hint[0] * u[0] + hint[1] * u[1] + hint[2] * u[2];
    verif_assume(wu * wu <= hint[0] * hint[0] + hint[1] * hint[1] + hint[2] * hint[2]);
    double t = num("t");
    Real3 q{pos[0] + t * u[0], pos[1] + t * u[1], pos[2] + t * u[2]};
    verif_assume(t > 0 && verif_approx_eq(f(q), 0.0, 1.0));
    verif_assert(t >= s || verif_close(t, s, s), "every ray from pos travels at least the safety distance before reaching the surface");
}
}  // namespace

VERIF_OBLIGATION(obl_c11_plane_aligned)
{
    double d = num("position");
    PlaneY s(d);
    Real3 pos = vec("pos");
    check_safety(s, [d](Real3 const& x) { return x[1] - d; }, pos);
}
VERIF_OBLIGATION(obl_c11_plane)
{
    Real3 n = vec("normal");
    verif_assume(verif_approx_eq(n[0] * n[0] + n[1] * n[1] + n[2] * n[2], 1.0, 1.0));
    double d = num("d");
    Plane s(n, d);
    Real3 pos = vec("pos");
    check_safety(s, [n, d](Real3 const& x) { return n[0] * x[0] + n[1] * x[1] + n[2] * x[2] - d; }, pos, n);
}
VERIF_OBLIGATION(obl_c11_sphere_centered)
{
    double r = num("radius");
    verif_assume(r > 0);
    SphereCentered s(r);
    Real3 pos = vec("pos");
    verif_assume(pos[0] != 0 || pos[1] != 0 || pos[2] != 0);  // at the centre the normal is NaN and the code returns +inf (IEEE; outside real mode)
    check_safety(s, [r](Real3 const& x) { return x[0] * x[0] + x[1] * x[1] + x[2] * x[2] - r * r; }, pos, pos);
}
VERIF_OBLIGATION(obl_c11_sphere)
{
    Real3 o = vec("origin");
    double r = num("radius");
    verif_assume(r > 0);
    Sphere s(o, r);
    Real3 pos = vec("pos");
    verif_assume(pos[0] != o[0] || pos[1] != o[1] || pos[2] != o[2]);
    check_safety(s, [o, r](Real3 const& x) {
        return (x[0] - o[0]) * (x[0] - o[0]) + (x[1] - o[1]) * (x[1] - o[1]) + (x[2] - o[2]) * (x[2] - o[2]) - r * r;
    }, pos, Real3{pos[0] - o[0], pos[1] - o[1], pos[2] - o[2]});
}
VERIF_OBLIGATION(obl_c11_cyl_centered)
{
    double r = num("radius");
    verif_assume(r > 0);
    CCylZ s(r);
    Real3 pos = vec("pos");
    verif_assume(pos[0] != 0 || pos[1] != 0);
    check_safety(s, [r](Real3 const& x) { return x[0] * x[0] + x[1] * x[1] - r * r; }, pos);
}
// C11.2: surface types without simple safety report exactly 0 (always conservative)
// one obligation per type: when a type's answer is not the constant 0 its query is a hard nonlinear one, and must not starve the others
VERIF_OBLIGATION(obl_c11_not_simple_cyl)
{
    Real3 pos = vec("pos");
    Real3 o = vec("o");
    double r = num("r");
    verif_assume(r > 0);
    verif_reach("not_simple");
    verif_assert(CalcSafetyDistance{pos}(CylX(o, r)) == 0, "CylAligned: safety 0");
}
VERIF_OBLIGATION(obl_c11_not_simple_cone)
{
    Real3 pos = vec("pos");
    Real3 o = vec("o");
    double r = num("r");
    verif_assume(r > 0);
    verif_reach("not_simple");
    verif_assert(CalcSafetyDistance{pos}(ConeZ(o, r)) == 0, "ConeAligned: safety 0");
}
VERIF_OBLIGATION(obl_c11_not_simple_sq)
{
    Real3 pos = vec("pos");
    verif_reach("not_simple");
    verif_assert(CalcSafetyDistance{pos}(SimpleQuadric(vec("a"), vec("d"), num("g"))) == 0, "SimpleQuadric: safety 0");
}
VERIF_OBLIGATION(obl_c11_not_simple_gq)
{
    Real3 pos = vec("pos");
    verif_reach("not_simple");
    verif_assert(CalcSafetyDistance{pos}(GeneralQuadric(vec("a2"), vec("d2"), vec("g2"), num("j"))) == 0, "GeneralQuadric: safety 0");
}
