// C08.1/.2 (and C05.3): the real FieldPropagator loop against contract stubs for the driver and the geometry (REAL mode).
//  * StubGeo honours the documented GeoTrackView contract: find_next_step(max) returns any {distance in [0,max], boundary}
//    (distance == max when no boundary is found); move_internal clears the on-boundary flag; move_to_boundary requires a
//    pending boundary from the LAST find_next_step and moves along the current direction.
//  * StubDriver::advance(step, state) returns any 0 < s <= step and an end state with |mom| unchanged and chord <= s.
#include "verif_celer.hh"
#include "verif_coll.hh"

#include "celeritas/phys/ParticleTrackView.hh"
#include "celeritas/field/FieldPropagator.hh"

using namespace celeritas;

namespace
{
inline double num(char const* n)
{
    return verif_nondet_f64(n);
}
inline double dot(Real3 const& a, Real3 const& b)
{
    return a[0] * b[0] + a[1] * b[1] + a[2] * b[2];
}

struct GeoState
{
    Real3 pos, dir;
    bool on_boundary;
    bool pending;  // a boundary was reported by the last find_next_step
    double pending_dist;
    int bad;  // contract violations by the caller
    int moves_to_boundary;
};
GeoState g_geo;

struct StubGeo
{
    Real3 const& pos() const { return g_geo.pos; }
    Real3 const& dir() const { return g_geo.dir; }
    bool is_on_boundary() const { return g_geo.on_boundary; }
    void set_dir(Real3 const& d) { g_geo.dir = d; }
    Propagation find_next_step(real_type max_step)
    {
        if (!(max_step > 0))
            ++g_geo.bad;
        Propagation p;
        p.boundary = verif_nondet_bool("geo_boundary");
        p.distance = num("geo_distance");
        verif_assume(p.distance >= 0 && p.distance <= max_step);
        if (!p.boundary)
            verif_assume(p.distance == max_step);
        g_geo.pending = p.boundary;
        g_geo.pending_dist = p.distance;
        return p;
    }
    void move_internal(Real3 const& p)
    {
        g_geo.pos = p;
        g_geo.on_boundary = false;
        g_geo.pending = false;
    }
    void move_to_boundary()
    {
        if (!g_geo.pending)
            ++g_geo.bad;
        for (int i = 0; i < 3; ++i)
            g_geo.pos[i] += g_geo.pending_dist * g_geo.dir[i];
        g_geo.on_boundary = true;
        g_geo.pending = false;
        ++g_geo.moves_to_boundary;
    }
};

struct DriverOpts
{
    double minimum_step, delta_intersection;
    short int max_substeps;
};
DriverOpts g_opts;
int g_advances;

struct StubDriver
{
    DriverResult advance(real_type step, OdeState const& state) const
    {
        ++g_advances;
        DriverResult r;
        r.step = num("substep");
        verif_assume(r.step > 0 && r.step <= step);
        for (int i = 0; i < 3; ++i)
        {
            r.state.pos[i] = num("end_pos");
            r.state.mom[i] = num("end_mom");
        }
        Real3 d{r.state.pos[0] - state.pos[0], r.state.pos[1] - state.pos[1], r.state.pos[2] - state.pos[2]};
        verif_assume(dot(d, d) <= r.step * r.step);  // chord <= arc
        verif_assume(dot(d, d) > 0);  // zero chord divides by zero (IEEE inf/NaN, handled via fmin): outside real mode
        verif_assume(verif_approx_eq(dot(r.state.mom, r.state.mom), dot(state.mom, state.mom), 1.0));  // |p| conserved
        return r;
    }
    real_type minimum_step() const { return g_opts.minimum_step; }
    real_type delta_intersection() const { return g_opts.delta_intersection; }
    short int max_substeps() const { return g_opts.max_substeps; }
};

struct PFix
{
    static inline units::MevMass mass[1]{};
    static inline units::ElementaryCharge charge[1]{};
    static inline real_type decay[1]{};
    static inline MatterType matter[1]{};
    static inline ParticleId pid[1]{};
    static inline real_type energy[1]{};
    NativeCRef<ParticleParamsData> pparams;
    NativeRef<ParticleStateData> pstate;
    PFix()
    {
        pparams = {};
        pstate = {};
        mass[0] = units::MevMass{0.5109989461};
        charge[0] = units::ElementaryCharge{-1};
        verif::bind(pparams.mass, (units::MevMass const*)mass, 1);
        verif::bind(pparams.charge, (units::ElementaryCharge const*)charge, 1);
        verif::bind(pparams.decay_constant, (real_type const*)decay, 1);
        verif::bind(pparams.matter, (MatterType const*)matter, 1);
        pid[0] = ParticleId{0};
        energy[0] = num("energy");
        verif_assume(energy[0] > 0);
        verif::bind(pstate.particle_id, pid, 1);
        verif::bind(pstate.particle_energy, energy, 1);
    }
};
}  // namespace

// over-approximating cut of detail::is_intercept_close (a pure predicate that only selects a branch): any answer
extern "C" bool stub_intercept_close(Real3 const*, Real3 const*, double, Real3 const*, double)
{
    return verif_nondet_bool("intercept_close");
}

#ifndef VERIF_SUBSTEPS
#    define VERIF_SUBSTEPS 2
#endif

VERIF_OBLIGATION(obl_c08_propagate)
{
    PFix pf;
    for (int i = 0; i < 3; ++i)
    {
        g_geo.pos[i] = num("pos");
        g_geo.dir[i] = num("dir");
    }
    verif_assume(verif_approx_eq(dot(g_geo.dir, g_geo.dir), 1.0, 1.0));
    g_geo.on_boundary = verif_nondet_bool("start_on_boundary");
    g_geo.pending = false;
    g_geo.bad = 0;
    g_geo.moves_to_boundary = 0;
    g_advances = 0;
    // FieldDriverOptions validated ranges: positive lengths, bounded substeps
    g_opts.minimum_step = num("minimum_step");
    g_opts.delta_intersection = num("delta_intersection");
    verif_assume(g_opts.minimum_step > 0 && g_opts.delta_intersection > g_opts.minimum_step);
    g_opts.max_substeps = VERIF_SUBSTEPS;
    double step = num("step");
    verif_assume(step > 0);
    ParticleTrackView particle(pf.pparams, pf.pstate, TrackSlotId{0});
    FieldPropagator<StubDriver, StubGeo> propagate(StubDriver{}, particle, StubGeo{});
    double p2_before = dot(propagate.state_.mom, propagate.state_.mom);
    Propagation r = propagate(step);
    verif_reach("propagate");
    verif_assert(g_geo.bad == 0, "geometry is used according to its contract (positive search distance; move_to_boundary only with a pending boundary)");
    verif_assert(r.distance > 0, "travelled distance is positive");
    verif_assert(r.distance <= step || verif_close(r.distance, step, step), "travelled distance never exceeds the requested step");
    if (r.looping)
        verif_assert(g_advances >= VERIF_SUBSTEPS && r.distance < step, "looping only once the substep budget is spent and the step is incomplete");
    verif_assert(r.boundary == g_geo.on_boundary, "returned boundary flag == geometry on-boundary state");
    if (r.boundary)
        verif_assert(g_geo.moves_to_boundary == 1, "on a boundary exactly by one move_to_boundary (the last linear search)");
    if (!r.boundary && !r.looping)
        verif_assert(verif_close(r.distance, step, step) || r.distance <= 0.1 * g_opts.delta_intersection || verif_close(r.distance, 0.1 * g_opts.delta_intersection, 1.0),
                     "inside the volume: full step travelled (or the documented bump off a boundary)");
    verif_assert(verif_close(dot(propagate.state_.mom, propagate.state_.mom), p2_before, p2_before), "|momentum| unchanged");
}

//---------------------------------------------------------------------------//
#include "celeritas/field/LinearPropagator.hh"
#include "celeritas/field/detail/FieldUtils.hh"

namespace
{
struct StubGeoLinear : StubGeo
{
    using StubGeo::move_internal;
    void move_internal(real_type d)
    {
        for (int i = 0; i < 3; ++i)
            g_geo.pos[i] += d * g_geo.dir[i];
        g_geo.on_boundary = false;
        g_geo.pending = false;
    }
};
}  // namespace

// C08.3 / C05.8: LinearPropagator = find_next_step + move; distance <= step, straight-line displacement == distance
VERIF_OBLIGATION(obl_c08_linear)
{
    for (int i = 0; i < 3; ++i)
    {
        g_geo.pos[i] = num("pos");
        g_geo.dir[i] = num("dir");
    }
    verif_assume(verif_approx_eq(dot(g_geo.dir, g_geo.dir), 1.0, 1.0));
    g_geo.on_boundary = verif_nondet_bool("start_on_boundary");
    g_geo.pending = false;
    g_geo.bad = 0;
    g_geo.moves_to_boundary = 0;
    Real3 p0 = g_geo.pos;
    double step = num("step");
    verif_assume(step > 0);
    LinearPropagator<StubGeoLinear> propagate(StubGeoLinear{});
    Propagation r = propagate(step);
    verif_reach("linear");
    verif_assert(g_geo.bad == 0, "geometry contract respected");
    verif_assert(r.distance >= 0 && r.distance <= step && !r.looping, "0 <= distance <= step, never looping");
    verif_assert(r.boundary == g_geo.on_boundary, "boundary flag == geometry state");
    verif_assert(r.boundary || r.distance == step, "inside the volume: full step");
    Real3 d{g_geo.pos[0] - p0[0], g_geo.pos[1] - p0[1], g_geo.pos[2] - p0[2]};
    verif_assert(verif_close(dot(d, d), r.distance * r.distance, r.distance * r.distance), "straight-line displacement equals the travelled distance");
}

// C08.5: FieldUtils algebraic contracts
VERIF_OBLIGATION(obl_c08_field_utils)
{
    Real3 a{num("a"), num("a"), num("a")}, b{num("b"), num("b"), num("b")};
    verif_assume(a[0] != b[0] || a[1] != b[1] || a[2] != b[2]);
    auto chord = detail::make_chord(a, b);
    verif_reach("utils");
    verif_assert(chord.length > 0, "chord length positive for distinct points");
    verif_assert(verif_close(dot(chord.dir, chord.dir), 1.0, 1.0), "chord direction is a unit vector");
    for (int i = 0; i < 3; ++i)
        verif_assert(verif_close(a[i] + chord.length * chord.dir[i], b[i], b[i]), "src + length * dir == dst");
    double tol = num("tol"), dist = num("dist");
    verif_assume(tol > 0);
    Real3 dir{num("d"), num("d"), num("d")};
    Real3 q{a[0] + dist * dir[0] - b[0], a[1] + dist * dir[1] - b[1], a[2] + dist * dir[2] - b[2]};
    verif_assert(detail::is_intercept_close(a, dir, dist, b, tol) == (dot(q, q) <= tol * tol), "is_intercept_close == |pos + dist*dir - target| <= tolerance");
}
