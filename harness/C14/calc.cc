// C14: grid calculators over tiny but fully symbolic tables (REAL mode; exp/log are uninterpreted functions constrained by
// instantiated monotonicity / inverse lemmas, i.e. the claims hold for ANY strictly increasing mutually inverse pair)
#include "verif_celer.hh"
#include "verif_coll.hh"

#include "celeritas/grid/XsCalculator.hh"
#include "celeritas/grid/XsGridData.hh"
#include "corecel/grid/UniformGridData.hh"
#include "celeritas/Quantities.hh"

using namespace celeritas;

#ifndef VERIF_K
#    define VERIF_K 3
#endif
constexpr int K = VERIF_K;

namespace
{
inline double num(char const* n)
{
    return verif_nondet_f64(n);
}
struct XsFix
{
    double vals[K];
    XsGridData grid;
    Collection<real_type, Ownership::const_reference, MemSpace::native> reals;
    double front, delta;
    XsFix()
    {
        front = num("log_front");
        delta = num("log_delta");
        verif_assume(delta > 0);
        grid.log_energy = UniformGridData::from_bounds(front, front + delta * (K - 1), K);
        for (int i = 0; i < K; ++i)
        {
            vals[i] = num("value");
            verif_assume(vals[i] >= 0);
        }
        unsigned p = verif_nondet_u32("prime_index");
        verif_assume(p <= (unsigned)K);
        grid.prime_index = p < (unsigned)K ? p : XsGridData::no_scaling();
        grid.value = ItemRange<real_type>(ItemId<real_type>(0), ItemId<real_type>(K));
        verif::bind(reals, (double const*)vals, K);
    }
    double knot(int i) const { return front + delta * i; }
    //! un-scaled (true) cross section at knot i: value / E_i above the prime index
    double xs_at(int i) const
    {
        double v = vals[i];
        if ((unsigned)i >= grid.prime_index)
            v /= std::exp(knot(i));
        return v;
    }
};
}  // namespace

// C14.1a: inside the grid the result lies between the two neighbouring (true) knot cross sections, and is >= 0
VERIF_OBLIGATION(obl_c14_xs_between)
{
    XsFix f;
    double e = num("energy");
    verif_assume(e > 0);
    XsCalculator calc(f.grid, f.reals);
    double r = calc(units::MevEnergy{e});
    verif_reach("xs");
    verif_assert(r >= 0, "cross section is non-negative for non-negative tables");
    double le = std::log(e);
    for (int i = 0; i + 1 < K; ++i)
    {
        if (le > f.knot(i) && le < f.knot(i + 1))
        {
            double lo = f.xs_at(i), hi = f.xs_at(i + 1);
            // E * xs is interpolated linearly above the prime index, xs itself below: compare in the interpolated quantity
            double scale = ((unsigned)i >= f.grid.prime_index) ? e : 1.0;
            double el = std::exp(f.knot(i)), er = std::exp(f.knot(i + 1));
            double yl = ((unsigned)i >= f.grid.prime_index) ? lo * el : lo;
            double yr = ((unsigned)i >= f.grid.prime_index) ? hi * er : hi;
            double y = r * scale;
            verif_assert((y >= yl || verif_close(y, yl, yl)) && (y <= yr || verif_close(y, yr, yr)) || (y <= yl || verif_close(y, yl, yl)) && (y >= yr || verif_close(y, yr, yr)),
                         "interpolated quantity lies between its two knot values");
        }
    }
    if (le <= f.knot(0))
        verif_assert(verif_close(r, (f.grid.prime_index == 0 ? f.vals[0] / e : f.vals[0]), r), "below the grid: first value (1/E scaled when the prime index is 0)");
    if (le >= f.knot(K - 1))
        verif_assert(verif_close(r, ((unsigned)(K - 1) >= f.grid.prime_index ? f.vals[K - 1] / e : f.vals[K - 1]), r), "above the grid: last value, 1/E scaled above the prime index");
}

// C14.1b: at a knot energy the table value is reproduced (true cross section)
VERIF_OBLIGATION(obl_c14_xs_knots)
{
    XsFix f;
    double e = num("energy");
    verif_assume(e > 0);
    unsigned k = verif_nondet_u32("knot");
    verif_assume(k < (unsigned)K);
    double le = std::log(e);
    verif_assume(le == f.knot(k));
    XsCalculator calc(f.grid, f.reals);
    double r = calc(units::MevEnergy{e});
    verif_reach("xs_knot");
    double expect = f.vals[k];
    if (k >= f.grid.prime_index)
        expect /= e;
    verif_assert(verif_close(r, expect, expect), "table value reproduced at its knot (divided by E above the prime index)");
    verif_assert(verif_close(calc[k], expect, expect), "operator[] returns the same knot value");
}

//---------------------------------------------------------------------------//
#include "celeritas/grid/RangeCalculator.hh"
#include "celeritas/grid/InverseRangeCalculator.hh"

namespace
{
struct RangeFix : XsFix
{
    RangeFix()
    {
        grid.prime_index = XsGridData::no_scaling();
        // range tables are strictly increasing and positive
        verif_assume(vals[0] > 0);
        for (int i = 0; i + 1 < K; ++i)
            verif_assume(vals[i] < vals[i + 1]);
    }
};
}  // namespace

// C14.3: range is monotone non-decreasing in E, bounded by the table ends, continuous regimes
VERIF_OBLIGATION(obl_c14_range_monotone)
{
    RangeFix f;
    double e1 = num("e1"), e2 = num("e2");
    verif_assume(e1 > 0 && e1 <= e2);
    RangeCalculator calc(f.grid, f.reals);
    double r1 = calc(units::MevEnergy{e1});
    double r2 = calc(units::MevEnergy{e2});
    verif_reach("range");
    verif_assert(r1 > 0 && r2 > 0, "range positive");
    verif_assert(r1 <= r2 || verif_close(r1, r2, r2), "range does not decrease with energy");
    verif_assert(r2 <= f.vals[K - 1] || verif_close(r2, f.vals[K - 1], r2), "range never exceeds the last table value");
}

// C14.4: inverse range of range is the identity inside the grid
VERIF_OBLIGATION(obl_c14_range_inverse)
{
    RangeFix f;
    double e = num("energy");
    verif_assume(e > 0);
    double le = std::log(e);
    verif_assume(le >= f.knot(0) && le <= f.knot(K - 1));
    RangeCalculator range(f.grid, f.reals);
    InverseRangeCalculator inverse(f.grid, f.reals);
    double r = range(units::MevEnergy{e});
    verif_assume(r >= 0 && r <= f.vals[K - 1]);
    double back = inverse(r).value();
    verif_reach("inverse");
    verif_assert(verif_close(back, e, e), "InverseRange(Range(E)) == E inside the grid");
}

// C14.3b: range table reproduced at its knots and bracketed inside a bin
VERIF_OBLIGATION(obl_c14_range_knots)
{
    RangeFix f;
    double e = num("energy");
    verif_assume(e > 0);
    double le = std::log(e);
    RangeCalculator calc(f.grid, f.reals);
    double r = calc(units::MevEnergy{e});
    verif_reach("range_knots");
    for (int k = 0; k < K; ++k)
    {
        if (le == f.knot(k))
            verif_assert(verif_close(r, f.vals[k], r), "range table value reproduced at its knot");
        if (k + 1 < K && le > f.knot(k) && le < f.knot(k + 1))
            verif_assert((r >= f.vals[k] || verif_close(r, f.vals[k], r)) && (r <= f.vals[k + 1] || verif_close(r, f.vals[k + 1], r)),
                         "range inside a bin lies between the neighbouring knot values");
    }
    if (le < f.knot(0))
        verif_assert(r <= f.vals[0] || verif_close(r, f.vals[0], r), "below the grid the range is scaled down from the first value");
}
