// C14.6: calc_mean_energy_loss over hand-laid physics tables (REAL mode): one particle, one material, one eloss process whose
// energy-loss-rate and range tables are fully symbolic (K knots, common log grid).  The pre-step range is the value the
// real RangeCalculator gives for the particle energy (that is what PreStepExecutor stores).
#include "verif_celer.hh"
#include "verif_coll.hh"

#include "celeritas/Quantities.hh"
#include "celeritas/phys/PhysicsData.hh"
#include "celeritas/phys/PhysicsTrackView.hh"
#include "celeritas/phys/ParticleTrackView.hh"
#include "celeritas/phys/PhysicsStepUtils.hh"
#include "celeritas/grid/RangeCalculator.hh"

using namespace celeritas;

#ifndef VERIF_K
#    define VERIF_K 3
#endif
constexpr int K = VERIF_K;

namespace
{
inline double num(char const* n)
{
    return verif_nondet_f64(n);
}
struct Fix
{
    // params
    static inline ProcessGroup groups[1]{};
    static inline ValueTable tables[2]{};
    static inline ValueGridId grid_ids[2]{};
    static inline XsGridData grids[2]{};
    static inline real_type reals[2 * K]{};
    static inline ProcessId procs[1]{};
    static inline ModelGroup mgroups[1]{};
    static inline units::MevMass mass[1]{};
    static inline units::ElementaryCharge charge[1]{};
    static inline real_type decay[1]{};
    static inline MatterType matter[1]{};
    // state
    static inline PhysicsTrackState pstate[1]{};
    static inline ParticleId pid[1]{};
    static inline real_type energy[1]{};

    NativeCRef<PhysicsParamsData> params;
    NativeRef<PhysicsStateData> state;
    NativeCRef<ParticleParamsData> pparams;
    NativeRef<ParticleStateData> pstates;
    double front, delta;

    Fix()
    {
        params = {};
        state = {};
        pparams = {};
        pstates = {};
        front = num("log_front");
        delta = num("log_delta");
        verif_assume(delta > 0);
        for (int t = 0; t < 2; ++t)
        {
            grids[t].log_energy = UniformGridData::from_bounds(front, front + delta * (K - 1), K);
            grids[t].prime_index = XsGridData::no_scaling();
            grids[t].value = ItemRange<real_type>(ItemId<real_type>(t * K), ItemId<real_type>(t * K + K));
            grid_ids[t] = ValueGridId(t);
            tables[t].grids = ItemRange<ValueGridId>(ItemId<ValueGridId>(t), ItemId<ValueGridId>(t + 1));
        }
        for (int i = 0; i < K; ++i)
        {
            reals[i] = num("dedx");
            verif_assume(reals[i] > 0);
            reals[K + i] = num("range");
            verif_assume(reals[K + i] > 0);
            if (i > 0)
                verif_assume(reals[K + i - 1] < reals[K + i]);
        }
        groups[0].processes = ItemRange<ProcessId>(ItemId<ProcessId>(0), ItemId<ProcessId>(1));
        groups[0].models = ItemRange<ModelGroup>(ItemId<ModelGroup>(0), ItemId<ModelGroup>(1));
        groups[0].tables[ValueGridType::energy_loss] = ItemRange<ValueTable>(ItemId<ValueTable>(0), ItemId<ValueTable>(1));
        groups[0].tables[ValueGridType::range] = ItemRange<ValueTable>(ItemId<ValueTable>(1), ItemId<ValueTable>(2));
        groups[0].eloss_ppid = ParticleProcessId{0};
        verif::bind(params.process_groups, (ProcessGroup const*)groups, 1);
        verif::bind(params.value_tables, (ValueTable const*)tables, 2);
        verif::bind(params.value_grid_ids, (ValueGridId const*)grid_ids, 2);
        verif::bind(params.value_grids, (XsGridData const*)grids, 2);
        verif::bind(params.reals, (real_type const*)reals, 2 * K);
        verif::bind(params.process_ids, (ProcessId const*)procs, 1);
        verif::bind(params.model_groups, (ModelGroup const*)mgroups, 1);
        params.scalars.max_particle_processes = 1;
        params.scalars.model_to_action = 8;
        params.scalars.num_models = 1;
        params.scalars.linear_loss_limit = num("linear_loss_limit");
        verif_assume(params.scalars.linear_loss_limit > 0 && params.scalars.linear_loss_limit <= 1);
        verif::bind(state.state, pstate, 1);
        mass[0] = units::MevMass{0.5109989461};
        charge[0] = units::ElementaryCharge{-1};
        verif::bind(pparams.mass, (units::MevMass const*)mass, 1);
        verif::bind(pparams.charge, (units::ElementaryCharge const*)charge, 1);
        verif::bind(pparams.decay_constant, (real_type const*)decay, 1);
        verif::bind(pparams.matter, (MatterType const*)matter, 1);
        pid[0] = ParticleId{0};
        verif::bind(pstates.particle_id, pid, 1);
        verif::bind(pstates.particle_energy, energy, 1);
    }
};
}  // namespace

VERIF_OBLIGATION(obl_c14_mean_eloss)
{
    Fix f;
    double e = num("energy");
    verif_assume(e > 0);
    // stated bound: energies inside the tabulated range (the sqrt(E) scaling regime below the table needs exp(x/2)^2 = exp(x)
    // reasoning on uninterpreted exp and stays undecided within the time budget)
    verif_assume(std::log(e) >= f.front);
    f.energy[0] = e;
    PhysicsTrackView phys(f.params, f.state, ParticleId{0}, MaterialId{0}, TrackSlotId{0});
    ParticleTrackView particle(f.pparams, f.pstates, TrackSlotId{0});
    // pre-step range as stored by PreStepExecutor
    double range = RangeCalculator(f.grids[1], f.params.reals)(units::MevEnergy{e});
    phys.dedx_range(range);
    double step = num("step");
    verif_assume(step > 0 && step <= range);
    double loss = calc_mean_energy_loss(particle, phys, step).value();
    verif_reach("mean_eloss");
    verif_assert(loss >= 0, "mean energy loss is non-negative");
    verif_assert(loss <= e || verif_close(loss, e, e), "mean energy loss never exceeds the particle energy");
    // table consistency (range = integral of dE / (dE/dx)): a range-limited step is never in the linear regime
    double rate = XsCalculator(f.grids[0], f.params.reals)(units::MevEnergy{e});
    if (step == range && rate * range >= e * f.params.scalars.linear_loss_limit)
        verif_assert(verif_close(loss, e, e), "loss equals the full energy when the step is the range");
}
