// C12.6: translating / transforming a surface preserves its point set:  f_{S'}(x') == f_S(transform_down(x'))  for every x'
// (real mode: polynomial identities; rotation matrix assumed orthonormal where the target type needs it)
#include "verif_celer.hh"

#include "orange/surf/detail/AllSurfaces.hh"
#include "orange/transform/Translation.hh"
#include "orange/transform/Transformation.hh"
#include "orange/surf/detail/SurfaceTranslator.hh"
#include "orange/surf/detail/SurfaceTransformer.hh"
#include "orange/MatrixUtils.cc"
#include "orange/surf/ConeAligned.cc"
#include "orange/surf/CylAligned.cc"
#include "orange/surf/Plane.cc"
#include "orange/surf/PlaneAligned.cc"
#include "orange/surf/Sphere.cc"
#include "orange/surf/Involute.cc"
#include "orange/surf/SimpleQuadric.cc"
#include "orange/surf/GeneralQuadric.cc"
#include "orange/surf/detail/SurfaceTranslator.cc"
#include "orange/surf/detail/SurfaceTransformer.cc"

using namespace celeritas;
using namespace celeritas::detail;

namespace
{
inline double num(char const* n)
{
    return verif_nondet_f64(n);
}
inline Real3 vec(char const* n)
{
    return {num(n), num(n), num(n)};
}
inline double f_plane(Plane const& s, Real3 const& x)
{
    auto n = s.normal();
    return n[0] * x[0] + n[1] * x[1] + n[2] * x[2] - s.displacement();
}
inline double f_sphere(Sphere const& s, Real3 const& x)
{
    auto o = s.origin();
    return (x[0] - o[0]) * (x[0] - o[0]) + (x[1] - o[1]) * (x[1] - o[1]) + (x[2] - o[2]) * (x[2] - o[2]) - s.radius_sq();
}
inline double f_gq(GeneralQuadric const& s, Real3 const& x)
{
    auto a = s.second();
    auto d = s.cross();
    auto g = s.first();
    return a[0] * x[0] * x[0] + a[1] * x[1] * x[1] + a[2] * x[2] * x[2] + d[0] * x[0] * x[1] + d[1] * x[1] * x[2] + d[2] * x[2] * x[0] + g[0] * x[0]
           + g[1] * x[1] + g[2] * x[2] + s.zeroth();
}
inline double f_sq(SimpleQuadric const& s, Real3 const& x)
{
    auto a = s.second();
    auto g = s.first();
    return a[0] * x[0] * x[0] + a[1] * x[1] * x[1] + a[2] * x[2] * x[2] + g[0] * x[0] + g[1] * x[1] + g[2] * x[2] + s.zeroth();
}
inline double f_cylz(CylZ const& s, Real3 const& x)
{
    return (x[0] - s.origin_u()) * (x[0] - s.origin_u()) + (x[1] - s.origin_v()) * (x[1] - s.origin_v()) - s.radius_sq();
}
inline double f_conez(ConeZ const& s, Real3 const& x)
{
    auto o = s.origin();
    return (x[0] - o[0]) * (x[0] - o[0]) + (x[1] - o[1]) * (x[1] - o[1]) - s.tangent_sq() * (x[2] - o[2]) * (x[2] - o[2]);
}
struct Rot
{
    double m[12];
    Transformation tr() const { return Transformation(Span<real_type const, 12>(m, 12)); }
};
inline Rot orthonormal_transform()
{
    Rot r;
    for (int i = 0; i < 12; ++i)
        r.m[i] = num("xform");
    for (int i = 0; i < 3; ++i)
        for (int j = i; j < 3; ++j)
        {
            double dot = r.m[3 * i] * r.m[3 * j] + r.m[3 * i + 1] * r.m[3 * j + 1] + r.m[3 * i + 2] * r.m[3 * j + 2];
            verif_assume(verif_approx_eq(dot, i == j ? 1.0 : 0.0, 1.0));
            // R R^T = I implies R^T R = I: stated as well (a consequence, hence no restriction) because the nonlinear solvers do not derive it
            double cdot = r.m[i] * r.m[j] + r.m[3 + i] * r.m[3 + j] + r.m[6 + i] * r.m[6 + j];
            verif_assume(verif_approx_eq(cdot, i == j ? 1.0 : 0.0, 1.0));
        }
    return r;
}
}  // namespace

VERIF_OBLIGATION(obl_c12_updown)
{
    Rot r = orthonormal_transform();
    Transformation t = r.tr();
    Real3 x = vec("x");
    Real3 y = t.transform_down(t.transform_up(x));
    Real3 d = t.rotate_down(t.rotate_up(x));
    Translation tl(vec("t"));
    Real3 z = tl.transform_down(tl.transform_up(x));
    verif_reach("updown");
    for (int i = 0; i < 3; ++i)
    {
        verif_assert(verif_close(y[i], x[i], 1.0), "transform_down(transform_up(x)) == x");
        verif_assert(verif_close(d[i], x[i], 1.0), "rotate_down(rotate_up(d)) == d");
        verif_assert(verif_close(z[i], x[i], 1.0), "translation down(up(x)) == x");
    }
}

VERIF_OBLIGATION(obl_c12_translate)
{
    Translation tl(vec("t"));
    SurfaceTranslator translate(tl);
    Real3 xp = vec("xprime");
    Real3 x = tl.transform_down(xp);
    verif_reach("translate");
    {
        Sphere s(vec("so"), 1.0);
        s.radius_sq_ = num("r2");
        verif_assert(verif_close(f_sphere(translate(s), xp), f_sphere(s, x), 1.0), "translated Sphere");
    }
    {
        SphereCentered sc(1.0);
        sc.radius_sq_ = num("r2c");
        Sphere s2 = translate(sc);
        verif_assert(verif_close(f_sphere(s2, xp), x[0] * x[0] + x[1] * x[1] + x[2] * x[2] - sc.radius_sq(), 1.0), "translated SphereCentered");
    }
    {
        Plane p(vec("pn"), num("pd"));
        verif_assert(verif_close(f_plane(translate(p), xp), f_plane(p, x), 1.0), "translated Plane");
    }
    {
        PlaneZ pz(num("pz"));
        PlaneZ q = translate(pz);
        verif_assert(verif_close(xp[2] - q.position(), x[2] - pz.position(), 1.0), "translated PlaneAligned");
    }
    {
        CylZ c(vec("co"), 1.0);
        c.radius_sq_ = num("cr2");
        verif_assert(verif_close(f_cylz(translate(c), xp), f_cylz(c, x), 1.0), "translated CylAligned");
    }
    {
        ConeZ c(vec("kone_o"), 1.0);
        c.tsq_ = num("tsq");
        verif_assert(verif_close(f_conez(translate(c), xp), f_conez(c, x), 1.0), "translated ConeAligned");
    }
    {
        SimpleQuadric q(vec("sq_abc"), vec("sq_def"), num("sq_g"));
        verif_assert(verif_close(f_sq(translate(q), xp), f_sq(q, x), 1.0), "translated SimpleQuadric");
    }
    {
        GeneralQuadric q(vec("gq_abc"), vec("gq_def"), vec("gq_ghi"), num("gq_j"));
        verif_assert(verif_close(f_gq(translate(q), xp), f_gq(q, x), 1.0), "translated GeneralQuadric");
    }
}

VERIF_OBLIGATION(obl_c12_transform_gq)
{
    Rot r = orthonormal_transform();
    Transformation t = r.tr();
    SurfaceTransformer transform(t);
    Real3 xp = vec("xprime");
    Real3 x = t.transform_down(xp);
    verif_reach("transform");
    GeneralQuadric q(vec("gq_abc"), vec("gq_def"), vec("gq_ghi"), num("gq_j"));
    verif_assert(verif_close(f_gq(transform(q), xp), f_gq(q, x), 1.0), "transformed GeneralQuadric");
}

VERIF_OBLIGATION(obl_c12_transform_simple)
{
    Rot r = orthonormal_transform();
    Transformation t = r.tr();
    SurfaceTransformer transform(t);
    Real3 xp = vec("xprime");
    Real3 x = t.transform_down(xp);
    verif_reach("transform");
    {
        Real3 pn = vec("pn");
        verif_assume(verif_approx_eq(pn[0] * pn[0] + pn[1] * pn[1] + pn[2] * pn[2], 1.0, 1.0));  // Plane precondition: unit normal
        Plane p(pn, num("pd"));
        verif_assert(verif_close(f_plane(transform(p), xp), f_plane(p, x), 1.0), "transformed Plane");
    }
    {
        Sphere s(vec("so"), 1.0);
        s.radius_sq_ = num("r2");
        verif_assert(verif_close(f_sphere(transform(s), xp), f_sphere(s, x), 1.0), "transformed Sphere");
    }
    {
        PlaneX px(num("px"));
        verif_assert(verif_close(f_plane(transform(px), xp), x[0] - px.position(), 1.0), "transformed PlaneAligned -> Plane");
    }
}

VERIF_OBLIGATION(obl_c12_transform_to_gq)
{
    Rot r = orthonormal_transform();
    Transformation t = r.tr();
    SurfaceTransformer transform(t);
    Real3 xp = vec("xprime");
    Real3 x = t.transform_down(xp);
    verif_reach("transform");
    {
        CylZ c(vec("co"), 1.0);
        c.radius_sq_ = num("cr2");
        verif_assert(verif_close(f_gq(transform(c), xp), f_cylz(c, x), 1.0), "transformed CylAligned -> GeneralQuadric");
    }
    {
        ConeZ c(vec("kone_o"), 1.0);
        c.tsq_ = num("tsq");
        verif_assert(verif_close(f_gq(transform(c), xp), f_conez(c, x), 1.0), "transformed ConeAligned -> GeneralQuadric");
    }
    {
        SimpleQuadric q(vec("sq_abc"), vec("sq_def"), num("sq_g"));
        verif_assert(verif_close(f_gq(transform(q), xp), f_sq(q, x), 1.0), "transformed SimpleQuadric -> GeneralQuadric");
    }
}
