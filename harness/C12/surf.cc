// C12: surface primitives against their textbook point-set definitions (engine B, REAL mode: exact arithmetic;
// sqrt is any s >= 0 with s*s = x).  The reference functions f_S below are written from the parameters the surface is
// constructed with, not from its accessors.
#include "verif_celer.hh"

#include "orange/surf/PlaneAligned.hh"
#include "orange/surf/Plane.hh"
#include "orange/surf/Sphere.hh"
#include "orange/surf/SphereCentered.hh"
#include "orange/surf/CylCentered.hh"
#include "orange/surf/CylAligned.hh"
#include "orange/surf/ConeAligned.hh"
#include "orange/surf/SimpleQuadric.hh"
#include "orange/surf/GeneralQuadric.hh"
#include "orange/surf/detail/QuadraticSolver.hh"
// out-of-line constructors
#include "orange/surf/SimpleQuadric.cc"
#include "orange/surf/GeneralQuadric.cc"

using namespace celeritas;
using celeritas::detail::QuadraticSolver;

namespace
{
constexpr double inf = std::numeric_limits<double>::infinity();
inline double num(char const* n)
{
    return verif_nondet_f64(n);
}
inline Real3 vec(char const* n)
{
    return {num(n), num(n), num(n)};
}
inline Real3 unit(char const* n)
{
    Real3 d = vec(n);
    verif_assume(verif_approx_eq(d[0] * d[0] + d[1] * d[1] + d[2] * d[2], 1.0, 1.0));
    return d;
}
inline Real3 along(Real3 const& p, Real3 const& d, double t)
{
    return {p[0] + t * d[0], p[1] + t * d[1], p[2] + t * d[2]};
}
inline int sgn(double x)
{
    return (x > 0) - (x < 0);
}

//! every finite returned distance is positive and lies on the surface f = 0; `complete`: no positive root is missed
template<class S, class F>
inline void check_surface(S const& surf, F&& f, bool complete_ok, double scale, bool complete_when_on = true, bool roots = true)
{
    if (roots)
    {
    Real3 pos = vec("pos");
    Real3 dir = unit("dir");
    bool on = verif_nondet_bool("on_surface");
    double f0 = f(pos);
    if (on)
        verif_assume(verif_approx_eq(f0, 0.0, scale));
    else
        verif_assume(f0 != 0);
    auto r = surf.calc_intersections(pos, dir, on ? SurfaceState::on : SurfaceState::off);
    verif_reach("intersect");
    for (unsigned i = 0; i < r.size(); ++i)
    {
        if (r[i] != inf)
        {
            verif_assert(r[i] > 0, "reported distance is positive");
            verif_assert(verif_close(f(along(pos, dir, r[i])), 0.0, scale), "point at the reported distance lies on the surface");
        }
    }
    if (r.size() == 2 && r[0] != inf && r[1] != inf)
        verif_assert(r[0] <= r[1], "distances ascending");
    if (complete_ok && (!on || complete_when_on))
    {
        double u = num("u");
        verif_assume(u > 0 && verif_approx_eq(f(along(pos, dir, u)), 0.0, scale));
        bool found = false;
        for (unsigned i = 0; i < r.size(); ++i)
            found = found || (r[i] != inf && verif_close(u, r[i], u));
        verif_assert(found, "no positive crossing is missed");
    }
    }
    else
        verif_reach("intersect");
    // sense = sign of f
    Real3 q = vec("q");
    verif_assert(static_cast<int>(surf.calc_sense(q)) == sgn(f(q)), "calc_sense is the sign of the surface function");
}
}  // namespace

VERIF_OBLIGATION(obl_c12_quadratic)
{
    double a = num("a"), hb = num("half_b"), c = num("c");
    bool on = verif_nondet_bool("on");
    verif_assume(on || c != 0);  // "off" means the point is not on the surface: f(pos) = c != 0
    auto r = QuadraticSolver::solve_general(a, hb, c, on ? SurfaceState::on : SurfaceState::off);
    double ce = on ? 0.0 : c;
    verif_reach("quadratic");
    for (int i = 0; i < 2; ++i)
        if (r[i] != inf)
        {
            verif_assert(r[i] > 0, "root positive");
            // documented degenerate regime |a| < min_a ("travelling along the surface"): the quadratic term is dropped
            bool degenerate = a < QuadraticSolver::min_a() && a > -QuadraticSolver::min_a();
            double resid = degenerate ? 2 * hb * r[i] + ce : (a * r[i] + 2 * hb) * r[i] + ce;
            verif_assert(verif_close(resid, 0.0, 1.0), "root satisfies a t^2 + b t + c = 0 (b t + c = 0 in the degenerate regime)");
        }
    if (r[0] != inf && r[1] != inf)
        verif_assert(r[0] <= r[1], "ascending");
    double u = num("u");
    double const min_a = QuadraticSolver::min_a();
    verif_assume((a >= min_a || a <= -min_a) && u > 0 && verif_approx_eq((a * u + 2 * hb) * u + ce, 0.0, 1.0));
    verif_assert((r[0] != inf && verif_close(u, r[0], u)) || (r[1] != inf && verif_close(u, r[1], u)), "no positive root missed (|a| >= min_a)");
}

VERIF_OBLIGATION(obl_c12_plane_aligned)
{
    double d = num("position");
    PlaneZ s(d);
    check_surface(s, [d](Real3 const& x) { return x[2] - d; }, true, 1.0, false);
    PlaneX sx(d);
    Real3 q = vec("qx");
    verif_assert(static_cast<int>(sx.calc_sense(q)) == sgn(q[0] - d), "PlaneX sense");
}

VERIF_OBLIGATION(obl_c12_plane)
{
    Real3 n = unit("normal");
    double d = num("displacement");
    Plane s(n, d);
    check_surface(s, [n, d](Real3 const& x) { return n[0] * x[0] + n[1] * x[1] + n[2] * x[2] - d; }, true, 1.0, false);
}

VERIF_OBLIGATION(obl_c12_sphere)
{
    Real3 o = vec("origin");
    double r = num("radius");
    verif_assume(r > 0);
    Sphere s(o, r);
    check_surface(s, [o, r](Real3 const& x) {
        return (x[0] - o[0]) * (x[0] - o[0]) + (x[1] - o[1]) * (x[1] - o[1]) + (x[2] - o[2]) * (x[2] - o[2]) - r * r;
    }, false, 1.0, true, false);
}

VERIF_OBLIGATION(obl_c12_sphere_centered)
{
    double r = num("radius");
    verif_assume(r > 0);
    SphereCentered s(r);
    check_surface(s, [r](Real3 const& x) { return x[0] * x[0] + x[1] * x[1] + x[2] * x[2] - r * r; }, false, 1.0, true, false);
}

VERIF_OBLIGATION(obl_c12_cyl_centered)
{
    double r = num("radius");
    verif_assume(r > 0);
    CCylZ s(r);
    check_surface(s, [r](Real3 const& x) { return x[0] * x[0] + x[1] * x[1] - r * r; }, false, 1.0, true, false);
}

VERIF_OBLIGATION(obl_c12_cyl_aligned)
{
    Real3 o = vec("origin");
    double r = num("radius");
    verif_assume(r > 0);
    CylX s(o, r);
    check_surface(s, [o, r](Real3 const& x) { return (x[1] - o[1]) * (x[1] - o[1]) + (x[2] - o[2]) * (x[2] - o[2]) - r * r; }, false, 1.0, true, false);
}

VERIF_OBLIGATION(obl_c12_cone)
{
    Real3 o = vec("origin");
    double t = num("tangent");
    verif_assume(t > 0);
    ConeZ s(o, t);
    check_surface(s, [o, t](Real3 const& x) {
        return (x[0] - o[0]) * (x[0] - o[0]) + (x[1] - o[1]) * (x[1] - o[1]) - t * t * (x[2] - o[2]) * (x[2] - o[2]);
    }, false, 1.0, true, false);
}

VERIF_OBLIGATION(obl_c12_simple_quadric)
{
    Real3 abc = vec("abc"), def = vec("def");
    double g = num("g");
    SimpleQuadric s(abc, def, g);
    check_surface(s, [abc, def, g](Real3 const& x) {
        return abc[0] * x[0] * x[0] + abc[1] * x[1] * x[1] + abc[2] * x[2] * x[2] + def[0] * x[0] + def[1] * x[1] + def[2] * x[2] + g;
    }, false, 1.0, true, false);
}

VERIF_OBLIGATION(obl_c12_general_quadric)
{
    Real3 abc = vec("abc"), def = vec("def"), ghi = vec("ghi");
    double j = num("j");
    GeneralQuadric s(abc, def, ghi, j);
    check_surface(s, [abc, def, ghi, j](Real3 const& x) {
        return abc[0] * x[0] * x[0] + abc[1] * x[1] * x[1] + abc[2] * x[2] * x[2] + def[0] * x[0] * x[1] + def[1] * x[1] * x[2] + def[2] * x[2] * x[0]
               + ghi[0] * x[0] + ghi[1] * x[1] + ghi[2] * x[2] + j;
    }, false, 1.0, true, false);
}

// C12.5: calc_normal is the unit outward gradient direction
namespace
{
template<class S, class G>
inline void check_normal(S const& surf, G&& grad)
{
    Real3 p = vec("pos");
    Real3 g = grad(p);
    verif_assume(g[0] != 0 || g[1] != 0 || g[2] != 0);
    Real3 n = surf.calc_normal(p);
    verif_reach("normal");
    verif_assert(verif_close(n[0] * n[0] + n[1] * n[1] + n[2] * n[2], 1.0, 1.0), "normal has unit length");
    verif_assert(verif_close(n[0] * g[1], n[1] * g[0], 1.0) && verif_close(n[1] * g[2], n[2] * g[1], 1.0) && verif_close(n[0] * g[2], n[2] * g[0], 1.0),
                 "normal is parallel to the gradient of the surface function");
    verif_assert(n[0] * g[0] + n[1] * g[1] + n[2] * g[2] > 0, "normal points along the gradient (outward)");
}
}  // namespace

VERIF_OBLIGATION(obl_c12_normal_sphere)
{
    Real3 o = vec("origin");
    double r = num("radius");
    verif_assume(r > 0);
    Sphere s(o, r);
    check_normal(s, [o](Real3 const& x) { return Real3{2 * (x[0] - o[0]), 2 * (x[1] - o[1]), 2 * (x[2] - o[2])}; });
}
VERIF_OBLIGATION(obl_c12_normal_cyl)
{
    Real3 o = vec("origin");
    double r = num("radius");
    verif_assume(r > 0);
    CylY s(o, r);
    check_normal(s, [o](Real3 const& x) { return Real3{2 * (x[0] - o[0]), 0, 2 * (x[2] - o[2])}; });
}
VERIF_OBLIGATION(obl_c12_normal_cone)
{
    Real3 o = vec("origin");
    double t = num("tangent");
    verif_assume(t > 0);
    ConeZ s(o, t);
    check_normal(s, [o, t](Real3 const& x) { return Real3{2 * (x[0] - o[0]), 2 * (x[1] - o[1]), -2 * t * t * (x[2] - o[2])}; });
}
VERIF_OBLIGATION(obl_c12_normal_plane)
{
    Real3 nrm = unit("normal");
    double d = num("d");
    Plane s(nrm, d);
    check_normal(s, [nrm](Real3 const&) { return nrm; });
}
VERIF_OBLIGATION(obl_c12_normal_general_quadric)
{
    Real3 abc = vec("abc"), def = vec("def"), ghi = vec("ghi");
    double j = num("j");
    GeneralQuadric s(abc, def, ghi, j);
    check_normal(s, [abc, def, ghi](Real3 const& x) {
        return Real3{2 * abc[0] * x[0] + def[0] * x[1] + def[2] * x[2] + ghi[0], 2 * abc[1] * x[1] + def[0] * x[0] + def[1] * x[2] + ghi[1],
                     2 * abc[2] * x[2] + def[1] * x[1] + def[2] * x[0] + ghi[2]};
    });
}
