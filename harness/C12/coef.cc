// C12.2: coefficient identity per quadric surface.  The three entry points of detail::QuadraticSolver that the surfaces
// use (constructor, operator()(c), operator()()) are CUT and replaced by recording stubs that return arbitrary roots; the
// solver's own contract is obligation C12.1.  For the recorded (a, b/2, c) and a FREE real t:
//      f_S(pos + t dir) == a t^2 + 2 (b/2) t + c        (c := f_S(pos) = 0 when starting on the surface)
// so the roots the solver finds are exactly the crossings of the surface; and the surface returns the solver's answer as is.
#include "verif_celer.hh"

#include "orange/surf/Sphere.hh"
#include "orange/surf/SphereCentered.hh"
#include "orange/surf/CylCentered.hh"
#include "orange/surf/CylAligned.hh"
#include "orange/surf/ConeAligned.hh"
#include "orange/surf/SimpleQuadric.hh"
#include "orange/surf/GeneralQuadric.hh"
#include "orange/surf/detail/QuadraticSolver.hh"
// out-of-line constructors
#include "orange/surf/SimpleQuadric.cc"
#include "orange/surf/GeneralQuadric.cc"

using namespace celeritas;
using celeritas::detail::QuadraticSolver;

namespace
{
struct Rec
{
    double a, hb, c;
    int ctor_calls, solve_calls, on;
    double r0, r1;
} g_rec;
constexpr double inf = std::numeric_limits<double>::infinity();
}  // namespace

extern "C" void stub_qs_ctor(QuadraticSolver* self, double a, double hb)
{
    g_rec.a = a;
    g_rec.hb = hb;
    ++g_rec.ctor_calls;
}
extern "C" Array<real_type, 2> stub_qs_solve_c(QuadraticSolver const* self, double c)
{
    g_rec.c = c;
    g_rec.on = 0;
    ++g_rec.solve_calls;
    g_rec.r0 = verif_nondet_f64("root0");
    g_rec.r1 = verif_nondet_f64("root1");
    return {g_rec.r0, g_rec.r1};
}
extern "C" Array<real_type, 2> stub_qs_solve_on(QuadraticSolver const* self)
{
    g_rec.c = 0;
    g_rec.on = 1;
    ++g_rec.solve_calls;
    g_rec.r0 = verif_nondet_f64("root0");
    g_rec.r1 = verif_nondet_f64("root1");
    return {g_rec.r0, g_rec.r1};
}

namespace
{
inline double num(char const* n)
{
    return verif_nondet_f64(n);
}
inline Real3 vec(char const* n)
{
    return {num(n), num(n), num(n)};
}
inline Real3 along(Real3 const& p, Real3 const& d, double t)
{
    return {p[0] + t * d[0], p[1] + t * d[1], p[2] + t * d[2]};
}

template<class S, class F>
inline void check_coefficients(S const& surf, F&& f, bool unit_dir)
{
    g_rec = {};
    Real3 pos = vec("pos");
    Real3 dir = vec("dir");
    if (unit_dir)
        verif_assume(verif_approx_eq(dir[0] * dir[0] + dir[1] * dir[1] + dir[2] * dir[2], 1.0, 1.0));
    bool on = verif_nondet_bool("on_surface");
    if (on)
        verif_assume(verif_approx_eq(f(pos), 0.0, 1.0));
    auto r = surf.calc_intersections(pos, dir, on ? SurfaceState::on : SurfaceState::off);
    verif_reach("coefficients");
    if (g_rec.solve_calls == 0)
    {
        // degenerate regime of solve_general (|a| < min_a): documented approximation, not covered by the identity
        return;
    }
    verif_assert(g_rec.ctor_calls == 1 && g_rec.solve_calls == 1, "one quadratic is solved");
    verif_assert(g_rec.on == (on ? 1 : 0), "on-surface state forwarded to the solver");
    verif_assert(r[0] == g_rec.r0 && r[1] == g_rec.r1, "the solver's answer is returned unchanged");
    double t = num("t");
    double lhs = f(along(pos, dir, t));
    double rhs = (g_rec.a * t + 2 * g_rec.hb) * t + g_rec.c;
    verif_assert(verif_close(lhs, rhs, 1.0), "f(pos + t dir) == a t^2 + 2(b/2) t + c for every t");
}
}  // namespace

VERIF_OBLIGATION(obl_c12_coef_sphere)
{
    Real3 o = vec("origin");
    double r = num("radius");
    verif_assume(r > 0);
    Sphere s(o, r);
    check_coefficients(s, [o, r](Real3 const& x) {
        return (x[0] - o[0]) * (x[0] - o[0]) + (x[1] - o[1]) * (x[1] - o[1]) + (x[2] - o[2]) * (x[2] - o[2]) - r * r;
    }, true);
}
VERIF_OBLIGATION(obl_c12_coef_sphere_centered)
{
    double r = num("radius");
    verif_assume(r > 0);
    SphereCentered s(r);
    check_coefficients(s, [r](Real3 const& x) { return x[0] * x[0] + x[1] * x[1] + x[2] * x[2] - r * r; }, true);
}
VERIF_OBLIGATION(obl_c12_coef_cyl_centered)
{
    double r = num("radius");
    verif_assume(r > 0);
    CCylY s(r);
    check_coefficients(s, [r](Real3 const& x) { return x[0] * x[0] + x[2] * x[2] - r * r; }, true);
}
VERIF_OBLIGATION(obl_c12_coef_cyl_aligned)
{
    Real3 o = vec("origin");
    double r = num("radius");
    verif_assume(r > 0);
    CylZ s(o, r);
    check_coefficients(s, [o, r](Real3 const& x) { return (x[0] - o[0]) * (x[0] - o[0]) + (x[1] - o[1]) * (x[1] - o[1]) - r * r; }, true);
}
VERIF_OBLIGATION(obl_c12_coef_cone)
{
    Real3 o = vec("origin");
    double tg = num("tangent");
    verif_assume(tg > 0);
    ConeX s(o, tg);
    check_coefficients(s, [o, tg](Real3 const& x) {
        return (x[1] - o[1]) * (x[1] - o[1]) + (x[2] - o[2]) * (x[2] - o[2]) - tg * tg * (x[0] - o[0]) * (x[0] - o[0]);
    }, true);
}
VERIF_OBLIGATION(obl_c12_coef_simple_quadric)
{
    Real3 abc = vec("abc"), def = vec("def");
    double g = num("g");
    SimpleQuadric s(abc, def, g);
    check_coefficients(s, [abc, def, g](Real3 const& x) {
        return abc[0] * x[0] * x[0] + abc[1] * x[1] * x[1] + abc[2] * x[2] * x[2] + def[0] * x[0] + def[1] * x[1] + def[2] * x[2] + g;
    }, true);
}
VERIF_OBLIGATION(obl_c12_coef_general_quadric)
{
    Real3 abc = vec("abc"), def = vec("def"), ghi = vec("ghi");
    double j = num("j");
    GeneralQuadric s(abc, def, ghi, j);
    check_coefficients(s, [abc, def, ghi, j](Real3 const& x) {
        return abc[0] * x[0] * x[0] + abc[1] * x[1] * x[1] + abc[2] * x[2] * x[2] + def[0] * x[0] * x[1] + def[1] * x[1] * x[2] + def[2] * x[2] * x[0]
               + ghi[0] * x[0] + ghi[1] * x[1] + ghi[2] * x[2] + j;
    }, true);
}
