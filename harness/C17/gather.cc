// C17.1: StepGatherExecutor<pre/post> for one slot: symbolic selection, detector map, filters, slot state
#include "minicore.hh"

#include "celeritas/user/StepData.hh"
#include "celeritas/user/detail/StepGatherExecutor.hh"

using namespace celeritas;
using namespace celeritas::detail;

constexpr int N = 2;
using MC = verif::MiniCore<N, 2, 1, 2>;

namespace
{
struct StepArrays
{
    // per step point
    real_type time[2][N];
    Real3 pos[2][N];
    Real3 dir[2][N];
    VolumeId vol[2][N];
    units::MevEnergy energy[2][N];
    TrackId track_id[N];
    DetectorId detector[N];
    EventId event_id[N];
    TrackId parent_id[N];
    ActionId action_id[N];
    size_type step_count[N];
    real_type step_length[N];
    ParticleId particle[N];
    units::MevEnergy edep[N];
    DetectorId det_map[MC::V];
};

static StepArrays g;       // output arrays (separate object from the core state)
static StepArrays before;  // copy for the frame condition

struct Fixture
{
    MC mc;
    NativeCRef<StepParamsData> params;
    NativeRef<StepStateData> state;

    Fixture()
    {
        params = {};
        state = {};
        for (int i = 0; i < N; ++i)
        {
            mc.symbolic_slot(i);
            verif_assume(mc.s_status[i] != TrackStatus::inactive || true);
        }
        // arbitrary previous contents of the step arrays
        for (int i = 0; i < N; ++i)
        {
            for (int p = 0; p < 2; ++p)
            {
                g.time[p][i] = MC::fin("o_time");
                for (int d = 0; d < 3; ++d)
                {
                    g.pos[p][i][d] = MC::fin("o_pos");
                    g.dir[p][i][d] = MC::fin("o_dir");
                }
                g.vol[p][i] = VolumeId{verif_nondet_u32("o_vol")};
                g.energy[p][i] = units::MevEnergy{MC::fin("o_energy")};
            }
            g.track_id[i] = TrackId{verif_nondet_u32("o_track")};
            g.detector[i] = DetectorId{verif_nondet_u32("o_det")};
            g.event_id[i] = EventId{verif_nondet_u32("o_event")};
            g.parent_id[i] = TrackId{verif_nondet_u32("o_parent")};
            g.action_id[i] = ActionId{verif_nondet_u32("o_action")};
            g.step_count[i] = verif_nondet_u32("o_count");
            g.step_length[i] = MC::fin("o_len");
            g.particle[i] = ParticleId{verif_nondet_u32("o_particle")};
            g.edep[i] = units::MevEnergy{MC::fin("o_edep")};
        }
        for (int p = 0; p < 2; ++p)
        {
            auto& sp = state.data.points[static_cast<StepPoint>(p)];
            verif::bind(sp.time, g.time[p], N);
            verif::bind(sp.pos, g.pos[p], N);
            verif::bind(sp.dir, g.dir[p], N);
            verif::bind(sp.volume_id, g.vol[p], N);
            verif::bind(sp.energy, g.energy[p], N);
        }
        verif::bind(state.data.track_id, g.track_id, N);
        verif::bind(state.data.detector, g.detector, N);
        verif::bind(state.data.event_id, g.event_id, N);
        verif::bind(state.data.parent_id, g.parent_id, N);
        verif::bind(state.data.action_id, g.action_id, N);
        verif::bind(state.data.track_step_count, g.step_count, N);
        verif::bind(state.data.step_length, g.step_length, N);
        verif::bind(state.data.particle, g.particle, N);
        verif::bind(state.data.energy_deposition, g.edep, N);
        state.stream_id = StreamId{0};
        before = g;
    }
};

inline bool flag(char const* n)
{
    return verif_nondet_bool(n) != 0;
}
}  // namespace

#ifndef VERIF_ONLY_FLAG
#    define VERIF_ONLY_FLAG -1
#endif
// flag k is symbolic; with VERIF_ONLY_FLAG >= 0 all other flags take the common symbolic value `rest` (two contexts)
#define FLAG(k, name) ((VERIF_ONLY_FLAG < 0 || VERIF_ONLY_FLAG == (k)) ? flag(name) : rest)

VERIF_OBLIGATION(obl_c17_gather_post)
{
    Fixture f;
    MC& mc = f.mc;
    bool rest = flag("other_flags");
    StepSelection& sel = f.params.selection;
    StepPointSelection& ps = sel.points[StepPoint::post];
    ps.time = FLAG(0, "sel_time");
    ps.pos = FLAG(1, "sel_pos");
    ps.dir = FLAG(2, "sel_dir");
    ps.volume_id = FLAG(3, "sel_vol");
    ps.energy = FLAG(4, "sel_energy");
    sel.event_id = FLAG(5, "sel_event");
    sel.parent_id = FLAG(6, "sel_parent");
    sel.track_step_count = FLAG(7, "sel_count");
    sel.action_id = FLAG(8, "sel_action");
    sel.step_length = FLAG(9, "sel_len");
    sel.particle = FLAG(10, "sel_particle");
    sel.energy_deposition = FLAG(11, "sel_edep");
    bool have_det = flag("have_detectors");
    f.params.nonzero_energy_deposition = flag("nonzero_edep_filter");
    for (int v = 0; v < MC::V; ++v)
    {
        unsigned d = verif_nondet_u32("det_map");
        verif_assume(d <= 2);
        g.det_map[v] = d < 2 ? DetectorId{d} : DetectorId{};
    }
    if (have_det)
        verif::bind(f.params.detector, (DetectorId const*)g.det_map, MC::V);
    constexpr int t = 0;
    // a valid detector id is < 2; the pre-step gather wrote either a mapped detector or null
    unsigned dprev = verif_nondet_u32("det_pre");
    verif_assume(dprev <= 2);
    g.detector[t] = dprev < 2 ? DetectorId{dprev} : DetectorId{};
    before.detector[t] = g.detector[t];
    verif_assume(mc.s_status[t] == TrackStatus::inactive || mc.g_vol[t] != LocalVolumeId{0} || true);

    StepGatherExecutor<StepPoint::post> gather{f.params, f.state};
    gather(mc.track(t));
    verif_reach("gather_post");

    bool inactive = mc.s_status[t] == TrackStatus::inactive;
    verif_assert(g.track_id[t] == (inactive ? TrackId{} : mc.s_track[t]), "track_id: null for inactive slots, the track's id otherwise");
    bool delivered = !inactive;
    if (delivered && have_det)
    {
        if (!before.detector[t])
            delivered = false;
        else if (f.params.nonzero_energy_deposition && mc.ph_state[t].energy_deposition == 0)
        {
            delivered = false;
            verif_assert(!g.detector[t], "zero-deposit step filtered: detector cleared");
        }
    }
#define CHECK(SEL, OUT, IN, LABEL)                                   \
    do                                                               \
    {                                                                \
        if (delivered && (SEL))                                      \
            verif_assert((OUT) == (IN), LABEL " equals track state"); \
    } while (0)
#define KEEP(COND, OUT, OLD, LABEL)                                    \
    do                                                                 \
    {                                                                  \
        if (!(COND))                                                   \
            verif_assert((OUT) == (OLD), LABEL " untouched when not selected/delivered"); \
    } while (0)
    CHECK(ps.time, g.time[1][t], mc.s_time[t], "post time");
    KEEP(delivered && ps.time, g.time[1][t], before.time[1][t], "post time");
    CHECK(ps.pos, g.pos[1][t][0], mc.g_pos[t][0], "post pos");
    CHECK(ps.pos, g.pos[1][t][2], mc.g_pos[t][2], "post pos z");
    KEEP(delivered && ps.pos, g.pos[1][t][1], before.pos[1][t][1], "post pos");
    CHECK(ps.dir, g.dir[1][t][1], mc.g_dir[t][1], "post dir");
    KEEP(delivered && ps.dir, g.dir[1][t][0], before.dir[1][t][0], "post dir");
    if (delivered && ps.volume_id)
        verif_assert(g.vol[1][t] == (mc.g_vol[t] == LocalVolumeId{0} ? VolumeId{} : VolumeId{mc.g_vol[t].unchecked_get()}), "post volume (null outside)");
    KEEP(delivered && ps.volume_id, g.vol[1][t], before.vol[1][t], "post volume");
    CHECK(ps.energy, g.energy[1][t].value(), mc.p_energy[t], "post energy");
    KEEP(delivered && ps.energy, g.energy[1][t].value(), before.energy[1][t].value(), "post energy");
    CHECK(sel.event_id, g.event_id[t], mc.s_event[t], "event id");
    KEEP(delivered && sel.event_id, g.event_id[t], before.event_id[t], "event id");
    CHECK(sel.parent_id, g.parent_id[t], mc.s_parent[t], "parent id");
    KEEP(delivered && sel.parent_id, g.parent_id[t], before.parent_id[t], "parent id");
    CHECK(sel.track_step_count, g.step_count[t], mc.s_steps[t], "step count");
    KEEP(delivered && sel.track_step_count, g.step_count[t], before.step_count[t], "step count");
    CHECK(sel.action_id, g.action_id[t], mc.s_post[t], "post-step action");
    KEEP(delivered && sel.action_id, g.action_id[t], before.action_id[t], "action id");
    CHECK(sel.step_length, g.step_length[t], mc.s_step[t], "step length");
    KEEP(delivered && sel.step_length, g.step_length[t], before.step_length[t], "step length");
    CHECK(sel.particle, g.particle[t], mc.p_id[t], "particle id");
    KEEP(delivered && sel.particle, g.particle[t], before.particle[t], "particle id");
    CHECK(sel.energy_deposition, g.edep[t].value(), mc.ph_state[t].energy_deposition, "energy deposition");
    KEEP(delivered && sel.energy_deposition, g.edep[t].value(), before.edep[t].value(), "energy deposition");
    // pre-step arrays and the other slot are never written by the post-step gather
    verif_assert(g.time[0][t] == before.time[0][t] && g.energy[0][t].value() == before.energy[0][t].value() && g.vol[0][t] == before.vol[0][t], "pre-step point untouched by post gather");
    verif_assert(g.track_id[1] == before.track_id[1] && g.time[1][1] == before.time[1][1] && g.edep[1].value() == before.edep[1].value()
                     && g.detector[1] == before.detector[1] && g.particle[1] == before.particle[1],
                 "other slot untouched");
}

VERIF_OBLIGATION(obl_c17_gather_pre)
{
    Fixture f;
    MC& mc = f.mc;
    bool rest = flag("other_flags");
    StepSelection& sel = f.params.selection;
    StepPointSelection& ps = sel.points[StepPoint::pre];
    ps.time = FLAG(0, "sel_time");
    ps.pos = FLAG(1, "sel_pos");
    ps.dir = FLAG(2, "sel_dir");
    ps.volume_id = FLAG(3, "sel_vol");
    ps.energy = FLAG(4, "sel_energy");
    sel.event_id = flag("sel_event");
    sel.particle = flag("sel_particle");
    bool have_det = flag("have_detectors");
    f.params.nonzero_energy_deposition = flag("nonzero_edep_filter");
    for (int v = 0; v < MC::V; ++v)
    {
        unsigned d = verif_nondet_u32("det_map");
        verif_assume(d <= 2);
        g.det_map[v] = d < 2 ? DetectorId{d} : DetectorId{};
    }
    if (have_det)
        verif::bind(f.params.detector, (DetectorId const*)g.det_map, MC::V);
    constexpr int t = 0;
    // active tracks are inside the geometry at the pre-step point
    verif_assume(mc.s_status[t] == TrackStatus::inactive || mc.g_vol[t] != LocalVolumeId{0});

    StepGatherExecutor<StepPoint::pre> gather{f.params, f.state};
    gather(mc.track(t));
    verif_reach("gather_pre");

    bool inactive = mc.s_status[t] == TrackStatus::inactive;
    bool delivered = !inactive;
    if (have_det)
    {
        if (inactive)
            verif_assert(!g.detector[t], "inactive slot: detector cleared");
        else
        {
            DetectorId expect = g.det_map[mc.g_vol[t].unchecked_get()];
            verif_assert(g.detector[t] == expect, "detector = detector map of the pre-step volume");
            if (!expect)
                delivered = false;
        }
    }
    else
        verif_assert(g.detector[t] == before.detector[t], "no detector map: detector array untouched");
    CHECK(ps.time, g.time[0][t], mc.s_time[t], "pre time");
    KEEP(delivered && ps.time, g.time[0][t], before.time[0][t], "pre time");
    CHECK(ps.pos, g.pos[0][t][0], mc.g_pos[t][0], "pre pos");
    KEEP(delivered && ps.pos, g.pos[0][t][2], before.pos[0][t][2], "pre pos");
    CHECK(ps.dir, g.dir[0][t][2], mc.g_dir[t][2], "pre dir");
    KEEP(delivered && ps.dir, g.dir[0][t][1], before.dir[0][t][1], "pre dir");
    if (delivered && ps.volume_id)
        verif_assert(g.vol[0][t] == VolumeId{mc.g_vol[t].unchecked_get()}, "pre volume");
    KEEP(delivered && ps.volume_id, g.vol[0][t], before.vol[0][t], "pre volume");
    CHECK(ps.energy, g.energy[0][t].value(), mc.p_energy[t], "pre energy");
    KEEP(delivered && ps.energy, g.energy[0][t].value(), before.energy[0][t].value(), "pre energy");
    // post-only quantities are not written at the pre-step point
    verif_assert(g.event_id[t] == before.event_id[t] && g.particle[t] == before.particle[t] && g.track_id[t] == before.track_id[t]
                     && g.edep[t].value() == before.edep[t].value() && g.time[1][t] == before.time[1][t],
                 "post-step quantities untouched by pre gather");
    verif_assert(g.detector[1] == before.detector[1] && g.time[0][1] == before.time[0][1] && g.energy[0][1].value() == before.energy[0][1].value(), "other slot untouched");
}

//---------------------------------------------------------------------------//
#include "celeritas/user/SimpleCaloData.hh"
#include "celeritas/user/ParticleTallyData.hh"
#include "celeritas/user/detail/SimpleCaloExecutor.hh"
#include "celeritas/user/detail/ActionDiagnosticExecutor.hh"
#include "celeritas/user/detail/StepDiagnosticExecutor.hh"

// C17.3: SimpleCaloExecutor: tally[detector] += deposit of the delivered step, nothing else
VERIF_OBLIGATION(obl_c17_calo)
{
    Fixture f;
    constexpr int D = 2;
    static real_type tally[D];
    real_type old[D];
    for (int d = 0; d < D; ++d)
    {
        tally[d] = MC::nonneg("tally");
        verif_assume(tally[d] < 1e100);
        old[d] = tally[d];
    }
    NativeRef<SimpleCaloStateData> calo;
    calo = {};
    verif::bind(calo.energy_deposition, tally, D);
    calo.num_track_slots = N;
    constexpr int t = 0;
    unsigned det = verif_nondet_u32("det");
    verif_assume(det <= (unsigned)D);
    g.detector[t] = det < (unsigned)D ? DetectorId{det} : DetectorId{};
    double edep = verif_nondet_f64("edep");
    verif_assume(edep > 0 && edep < 1e100);  // delivered steps of a calorimeter carry a positive deposit (filter on)
    g.edep[t] = units::MevEnergy{edep};
    SimpleCaloExecutor run{f.state, calo};
    run(ThreadId(t));
    verif_reach("calo");
    for (int d = 0; d < D; ++d)
    {
        if (det < (unsigned)D && (unsigned)d == det)
            verif_assert(tally[d] == old[d] + edep, "tally of the step's detector increases by exactly the delivered deposit");
        else
            verif_assert(tally[d] == old[d], "other detectors (and steps without detector) leave the tally unchanged");
    }
}

// C17.4: diagnostics: exactly one counter incremented, at [particle][post_step_action] / [particle][min(steps, nbins-1)]
VERIF_OBLIGATION(obl_c17_diagnostics)
{
    Fixture f;
    MC& mc = f.mc;
    constexpr int NB = 4;           // bins per particle
    constexpr int NC = MC::P * NB;  // counters
    static size_type counts[NC];
    size_type old[NC];
    for (int i = 0; i < NC; ++i)
    {
        counts[i] = verif_nondet_u32("count");
        verif_assume(counts[i] < 1000000u);
        old[i] = counts[i];
    }
    NativeCRef<ParticleTallyParamsData> params;
    params.num_bins = NB;
    params.num_particles = MC::P;
    NativeRef<ParticleTallyStateData> state;
    state = {};
    verif::bind(state.counts, counts, NC);
    constexpr int t = 0;
    bool which = flag("step_diagnostic");
    if (!which)
    {
        // ActionDiagnostic runs on active tracks (its condition) whose post-step action is a registered action < num_bins
        verif_assume(mc.s_status[t] != TrackStatus::inactive);
        verif_assume(mc.s_post[t] && mc.s_post[t].unchecked_get() < (unsigned)NB);
        ActionDiagnosticExecutor run{params, state};
        run(mc.track(t));
        verif_reach("action_diag");
        unsigned bin = mc.p_id[t].unchecked_get() * NB + mc.s_post[t].unchecked_get();
        for (int i = 0; i < NC; ++i)
            verif_assert(counts[i] == old[i] + ((unsigned)i == bin ? 1u : 0u), "action diagnostic: exactly the [particle][action] counter +1");
    }
    else
    {
        StepDiagnosticExecutor run{params, state};
        run(mc.track(t));
        verif_reach("step_diag");
        bool killed = mc.s_status[t] == TrackStatus::killed;
        unsigned steps = mc.s_steps[t] < (unsigned)(NB - 1) ? mc.s_steps[t] : (unsigned)(NB - 1);
        unsigned bin = mc.p_id[t].unchecked_get() * NB + steps;
        for (int i = 0; i < NC; ++i)
            verif_assert(counts[i] == old[i] + ((killed && (unsigned)i == bin) ? 1u : 0u), "step diagnostic: killed tracks only, [particle][min(steps, last bin)] +1");
    }
}
