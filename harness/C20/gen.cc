// C20.3-C20.5: optical photon generators, REAL mode, stub RNG (any canonical value for every draw), symbolic 2-knot optical material.
// `rotate` is cut to a recorder returning an arbitrary vector (its contract is C20.1 in vec.cc): the generator obligations check that the
// generator hands rotate the right local vectors and axis, and everything that does not go through rotate directly.
#include "verif_celer.hh"
#include "verif_coll.hh"

#include "celeritas/random/distribution/GenerateCanonical.hh"

namespace
{
struct StubRng
{
    int draws = 0;
};
}  // namespace
namespace celeritas
{
template<>
class GenerateCanonical<StubRng, double>
{
  public:
    using real_type = double;
    using result_type = double;
    result_type operator()(StubRng& rng)
    {
        ++rng.draws;
        double u = verif_nondet_f64("canonical");
        verif_assume(u > 0 && u < 1);
        return u;
    }
};
}  // namespace celeritas

#include "celeritas/optical/CerenkovDndxCalculator.hh"
#include "celeritas/optical/CerenkovGenerator.hh"
#include "celeritas/optical/ScintillationGenerator.hh"

using namespace celeritas;
using namespace celeritas::optical;

#ifndef VERIF_NCOMP
#    define VERIF_NCOMP 1
#endif

namespace
{
struct RotRec
{
    int calls = 0;
    Real3 dir[2];
    Real3 rot[2];
    Real3 out[2];
} g_rot;
inline double num(char const* n)
{
    return verif_nondet_f64(n);
}
inline double dot(Real3 const& a, Real3 const& b)
{
    return a[0] * b[0] + a[1] * b[1] + a[2] * b[2];
}
}  // namespace

extern "C" Real3 stub_rotate(Real3 const& dir, Real3 const& rot)
{
    Real3 out{num("rotated"), num("rotated"), num("rotated")};
    if (g_rot.calls < 2)
    {
        g_rot.dir[g_rot.calls] = dir;
        g_rot.rot[g_rot.calls] = rot;
        g_rot.out[g_rot.calls] = out;
    }
    ++g_rot.calls;
    return out;
}

//! cut for celeritas::detail::sincospi (polynomial range-reduced implementation): any (s, c) on the unit circle
extern "C" void stub_sincospi(double a, double* s, double* c)
{
    double sv = num("sinpi"), cv = num("cospi");
    verif_assume(verif_approx_eq(sv * sv + cv * cv, 1.0, 1.0));
    *s = sv;
    *c = cv;
}

#ifdef VERIF_CUT_UNIT
//! cut for make_unit_vector in the scintillation obligation (contract v/|v|: C20.1/unit): record the argument, return any vector
struct UnitRec
{
    int calls = 0;
    Real3 arg;
    Real3 out;
} g_unit;
extern "C" Real3 stub_unit(Real3 const& v)
{
    Real3 out{num("unit"), num("unit"), num("unit")};
    ++g_unit.calls;
    g_unit.arg = v;
    g_unit.out = out;
    return out;
}
#endif

#ifdef VERIF_CUT_CALC
//! cuts for the generator obligation: refractive index lookup = any n >= 1 (recorded), dN/dx = any value >= 0 (contract: C20.5)
struct CalcRec
{
    int calls = 0;
    double x = 0, n = 0;
} g_calc;
extern "C" double stub_calc(GenericCalculator const* self, double x)
{
    double n = num("refractive_index_at");
    verif_assume(n >= 1);
    ++g_calc.calls;
    g_calc.x = x;
    g_calc.n = n;
    return n;
}
extern "C" double stub_dndx(CerenkovDndxCalculator* self, units::LightSpeed beta)
{
    double r = num("dndx");
    verif_assume(r >= 0);
    return r;
}
#endif

namespace
{
//! one optical material with a 2-knot refractive index table (increasing, n >= 1) and its Cerenkov angle integral
struct Mat
{
    double reals[6];
    GenericGridRecord ri[1];
    GenericGridRecord ai[1];
    OpticalMaterialId vol_to_opt[1];
    NativeCRef<MaterialParamsData> mparams;
    NativeCRef<CerenkovData> cerenkov;
    Mat()
    {
        double e0 = num("grid_energy"), e1 = num("grid_energy"), n0 = num("refractive_index"), n1 = num("refractive_index");
        verif_assume(e0 > 0 && e1 > e0 && n0 >= 1 && n1 >= n0);
        reals[0] = e0;
        reals[1] = e1;
        reals[2] = n0;
        reals[3] = n1;
        // angle integral of 1/n^2 over the grid: starts at 0, increasing (values otherwise arbitrary: only dN/dx depends on them)
        reals[4] = 0;
        reals[5] = num("angle_integral");
        verif_assume(reals[5] >= 0);
        using R = ItemRange<real_type>;
        using I = ItemId<real_type>;
        ri[0].grid = R(I(0), I(2));
        ri[0].value = R(I(2), I(4));
        ai[0].grid = R(I(0), I(2));
        ai[0].value = R(I(4), I(6));
        vol_to_opt[0] = OpticalMaterialId{0};
        verif::bind(mparams.refractive_index, (GenericGridRecord const*)ri, 1);
        verif::bind(mparams.optical_id, (OpticalMaterialId const*)vol_to_opt, 1);
        verif::bind(mparams.reals, (double const*)reals, 6);
        verif::bind(cerenkov.angle_integral, (GenericGridRecord const*)ai, 1);
        verif::bind(cerenkov.reals, (double const*)reals, 6);
    }
    double n_at(double e) const
    {
        return reals[2] + (reals[3] - reals[2]) * (e - reals[0]) / (reals[1] - reals[0]);
    }
};
inline GeneratorDistributionData any_dist(bool charged)
{
    GeneratorDistributionData d;
    d.num_photons = 1;
    d.time = num("pre_time");
    d.step_length = num("step_length");
    verif_assume(d.step_length > 0);
    double q = num("charge");
    verif_assume(charged ? (q == 1 || q == -1) : (q == 0));
    d.charge = units::ElementaryCharge{q};
    d.material = OpticalMaterialId{0};
    for (auto p : {StepPoint::pre, StepPoint::post})
    {
        double v = num("speed");
        verif_assume(v > 0 && v < 1);
        d.points[p].speed = units::LightSpeed{v};
        d.points[p].pos = Real3{num("pos"), num("pos"), num("pos")};
    }
    return d;
}
//! photon position is pre + u (post - pre) for one u in [0,1] (checked per axis with a witness u from the longest axis is nonlinear: use the
//! equivalent box + collinearity conditions)
inline bool on_segment(Real3 const& x, Real3 const& a, Real3 const& b)
{
    Real3 d{b[0] - a[0], b[1] - a[1], b[2] - a[2]}, r{x[0] - a[0], x[1] - a[1], x[2] - a[2]};
    // collinear (cross product zero) and 0 <= r.d <= d.d
    bool col = verif_close(r[1] * d[2] - r[2] * d[1], 0, dot(d, d)) & verif_close(r[2] * d[0] - r[0] * d[2], 0, dot(d, d))
               & verif_close(r[0] * d[1] - r[1] * d[0], 0, dot(d, d));
    double rd = dot(r, d), dd = dot(d, d);
    return col & (rd >= -1e-7 * dd) & (rd <= dd * (1 + 1e-7));
}
}  // namespace

// C20.3: Cerenkov photons
VERIF_OBLIGATION(obl_c20_cerenkov)
{
    Mat m;
    GeneratorDistributionData d = any_dist(true);
    // the step is above threshold at the top of the table (otherwise no photons are requested: C20.5) and moves
    double vmean = 0.5 * (d.points[StepPoint::pre].speed.value() + d.points[StepPoint::post].speed.value());
#ifndef VERIF_CUT_CALC
    verif_assume(1 / vmean < m.reals[3]);
#endif
    Real3 const& a = d.points[StepPoint::pre].pos;
    Real3 const& b = d.points[StepPoint::post].pos;
    verif_assume(!(a[0] == b[0] && a[1] == b[1] && a[2] == b[2]));
    MaterialView mat(m.mparams, OpticalMaterialId{0});
    CerenkovGenerator gen(mat, m.cerenkov, d);
    StubRng rng;
    g_rot = {};
    TrackInitializer ph = gen(rng);
    verif_reach("cerenkov");
    double e = ph.energy.value();
    verif_assert(e >= m.reals[0] && e <= m.reals[1] && e > 0, "Cerenkov photon energy inside the tabulated refractive-index range");
    verif_assert(g_rot.calls == 2, "direction and polarisation are each rotated once");
    // the local direction handed to rotate lies on the cone cos(theta) = 1 / (n(E) beta_mean) for the RETURNED energy E ...
#ifdef VERIF_CUT_CALC
    // the last refractive-index lookup is the accepted one: it was made at the returned energy
    verif_assert(g_calc.x == e, "refractive index evaluated at the returned photon energy");
    double c = (2 / (d.points[StepPoint::pre].speed.value() + d.points[StepPoint::post].speed.value())) / g_calc.n;
#else
    GenericCalculator calc_n = mat.make_refractive_index_calculator();
    double c = (2 / (d.points[StepPoint::pre].speed.value() + d.points[StepPoint::post].speed.value())) / calc_n(e);
#endif
    Real3 const& l0 = g_rot.dir[0];
    Real3 const& l1 = g_rot.dir[1];
    verif_assert(l0[2] == c && c <= 1 && c > 0, "local photon direction has cos(theta) = 1 / (n(E) beta) <= 1");
    // ... the local polarisation is the same azimuth at polar angle theta + pi/2 (perpendicular to the local direction, in the plane of the cone axis)
    double s = -l1[2];
    verif_assert(s >= 0 && verif_close(s * s, 1 - c * c, 1.0), "local polarisation has cos(theta') = -sin(theta)");
    verif_assert(verif_close(l1[0] * s, l0[0] * c, 1.0) && verif_close(l1[1] * s, l0[1] * c, 1.0), "local polarisation has the azimuth of the local direction");
    // ... about the parent's direction of motion
    Real3 dp{b[0] - a[0], b[1] - a[1], b[2] - a[2]};
    Real3 const& ax = g_rot.rot[0];
    verif_assert(verif_close(ax[0] * ax[0] * dot(dp, dp), dp[0] * dp[0], dot(dp, dp)) && verif_close(ax[1] * ax[1] * dot(dp, dp), dp[1] * dp[1], dot(dp, dp))
                     && verif_close(ax[2] * ax[2] * dot(dp, dp), dp[2] * dp[2], dot(dp, dp)) && ax[0] * dp[0] >= 0 && ax[1] * dp[1] >= 0 && ax[2] * dp[2] >= 0,
                 "rotation axis is the unit vector along the step");
    verif_assert(g_rot.rot[1][0] == ax[0] && g_rot.rot[1][1] == ax[1] && g_rot.rot[1][2] == ax[2], "same axis for direction and polarisation");
    verif_assert(ph.direction[0] == g_rot.out[0][0] && ph.direction[1] == g_rot.out[0][1] && ph.direction[2] == g_rot.out[0][2]
                     && ph.polarization[0] == g_rot.out[1][0] && ph.polarization[1] == g_rot.out[1][1] && ph.polarization[2] == g_rot.out[1][2],
                 "photon direction / polarisation are the rotated vectors");
    verif_assert(on_segment(ph.position, a, b), "photon position lies on the parent's step segment");
    verif_assert(ph.time >= d.time, "photon time is not earlier than the pre-step time");
}

// C20.5: mean photon yield: zero below the Cerenkov threshold, never negative
VERIF_OBLIGATION(obl_c20_dndx)
{
    Mat m;
    double beta = num("beta");
    verif_assume(beta > 0 && beta <= 1);
    MaterialView mat(m.mparams, OpticalMaterialId{0});
    double q = num("charge");
    verif_assume(q == 1 || q == -1);
    CerenkovDndxCalculator calc(mat, m.cerenkov, units::ElementaryCharge{q});
    double r = calc(units::LightSpeed{beta});
    verif_reach("dndx");
    verif_assert(r >= 0, "dN/dx is never negative");
    if (1 / beta > m.reals[3])
        verif_assert(r == 0, "no photons below the Cerenkov threshold beta < 1/n_max");
}

// C20.4: scintillation photons (one material, one or two components)
VERIF_OBLIGATION(obl_c20_scintillation)
{
    GeneratorDistributionData d = any_dist(verif_nondet_bool("charged"));
    ScintRecord comps[2];
    double pdf[2] = {0, 0};
    constexpr int NC = VERIF_NCOMP;
    for (int i = 0; i < NC; ++i)
    {
        comps[i].lambda_mean = num("lambda_mean");
        comps[i].lambda_sigma = num("lambda_sigma");
        comps[i].rise_time = verif_nondet_bool("has_rise_time") ? num("rise_time") : 0.0;
        comps[i].fall_time = num("fall_time");
        verif_assume(comps[i].lambda_mean > 0 && comps[i].lambda_sigma > 0 && comps[i].rise_time >= 0 && comps[i].fall_time > 0);
        pdf[i] = num("yield_pdf");
        verif_assume(pdf[i] >= 0);
    }
    verif_assume(verif_approx_eq(pdf[0] + pdf[1], 1.0, 1.0));
    verif_assume(pdf[NC - 1] > 0);
    MatScintSpectrumRecord mats[1];
    mats[0].yield_per_energy = 1;
    mats[0].yield_pdf = ItemRange<real_type>(ItemId<real_type>(0), ItemId<real_type>(NC));
    mats[0].components = ItemRange<ScintRecord>(ItemId<ScintRecord>(0), ItemId<ScintRecord>(NC));
    double res[1] = {1.0};
    NativeCRef<ScintillationData> shared;
    shared.num_scint_particles = 0;
    verif::bind(shared.resolution_scale, (double const*)res, 1);
    verif::bind(shared.materials, (MatScintSpectrumRecord const*)mats, 1);
    verif::bind(shared.scint_records, (ScintRecord const*)comps, NC);
    verif::bind(shared.reals, (double const*)pdf, NC);
    ScintillationGenerator gen(shared, d);
    StubRng rng;
    TrackInitializer ph = gen(rng);
    verif_reach("scintillation");
    Real3 const& a = d.points[StepPoint::pre].pos;
    Real3 const& b = d.points[StepPoint::post].pos;
    verif_assert(verif_close(dot(ph.direction, ph.direction), 1.0, 1.0), "scintillation photon direction is a unit vector");
#ifdef VERIF_CUT_UNIT
    verif_assert(g_unit.calls == 1 && ph.polarization[0] == g_unit.out[0] && ph.polarization[1] == g_unit.out[1] && ph.polarization[2] == g_unit.out[2],
                 "scintillation photon polarisation is the normalised combination vector");
    verif_assert(verif_close(dot(ph.direction, g_unit.arg), 0.0, 1.0), "scintillation photon polarisation (before normalisation) is perpendicular to its direction");
#    ifdef VERIF_UNITLEN
    verif_assert(verif_close(dot(g_unit.arg, g_unit.arg), 1.0, 1.0), "the vector being normalised has unit length (not zero)");
#    endif
#else
    verif_assert(verif_close(dot(ph.polarization, ph.polarization), 1.0, 1.0), "scintillation photon polarisation is a unit vector");
    verif_assert(verif_close(dot(ph.direction, ph.polarization), 0.0, 1.0), "scintillation photon polarisation is perpendicular to its direction");
#endif
    verif_assert(a[0] == b[0] && a[1] == b[1] && a[2] == b[2] ? (ph.position[0] == a[0] && ph.position[1] == a[1] && ph.position[2] == a[2])
                                                              : on_segment(ph.position, a, b),
                 "scintillation photon position lies on the parent's step segment");
    verif_assert(ph.time >= d.time, "scintillation photon time is not earlier than the pre-step time");
#ifdef VERIF_ENERGY
    verif_assert(ph.energy.value() > 0, "scintillation photon energy is positive");
#endif
}
