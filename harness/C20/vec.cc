// C20.1 / C20.2 (also used by every interactor of C04): the spherical-coordinate helpers in corecel/math/ArrayUtils.hh, exact real arithmetic.
//   from_spherical(c, phi): unit vector with z = c
//   rotate(dir, rot): unit vector whose angle to `rot` is the polar angle of `dir` (rotate(dir, rot) . rot == dir_z), and rotate(e_z, rot) == rot
#include "verif_celer.hh"

#include "corecel/math/ArrayUtils.hh"
#include "geocel/Types.hh"

using namespace celeritas;

namespace
{
inline Real3 unit(char const* n)
{
    Real3 d{verif_nondet_f64(n), verif_nondet_f64(n), verif_nondet_f64(n)};
    verif_assume(verif_approx_eq(d[0] * d[0] + d[1] * d[1] + d[2] * d[2], 1.0, 1.0));
    return d;
}
}  // namespace

VERIF_OBLIGATION(obl_c20_from_spherical)
{
    double c = verif_nondet_f64("costheta"), phi = verif_nondet_f64("phi");
    verif_assume(c >= -1 && c <= 1);
    Real3 v = from_spherical(c, phi);
    verif_reach("from_spherical");
    verif_assert(verif_close(v[0] * v[0] + v[1] * v[1] + v[2] * v[2], 1.0, 1.0), "from_spherical gives a unit vector");
    verif_assert(v[2] == c, "from_spherical z component is cos(theta)");
}

VERIF_OBLIGATION(obl_c20_rotate)
{
    Real3 dir = unit("dir"), rot = unit("rot");
    Real3 r = rotate(dir, rot);
    verif_reach("rotate");
    verif_assert(verif_close(r[0] * r[0] + r[1] * r[1] + r[2] * r[2], 1.0, 1.0), "rotate gives a unit vector");
    // known finding F7: for 0 < sin(theta_rot) < min_accurate_sintheta the azimuth's sine is taken as +sqrt(1 - cos^2): wrong sign for rot_y < 0
    verif_assume(!verif_known_region("F7", (rot[2] * rot[2] < 1) & (1 - rot[2] * rot[2] < 0.005 * 0.005) & (rot[1] < 0)));
    verif_assert(verif_close(r[0] * rot[0] + r[1] * rot[1] + r[2] * rot[2], dir[2], 1.0), "rotate(dir, rot) . rot == dir_z: the polar angle about the new axis is preserved");
}

VERIF_OBLIGATION(obl_c20_rotate_axis)
{
    Real3 rot = unit("rot");
    Real3 r = rotate(Real3{0, 0, 1}, rot);
    verif_reach("rotate_axis");
    verif_assume(!verif_known_region("F7", (rot[2] * rot[2] < 1) & (1 - rot[2] * rot[2] < 0.005 * 0.005) & (rot[1] < 0)));
    for (int k = 0; k < 3; ++k)
        verif_assert(verif_close(r[k], rot[k], 1.0), "rotate(e_z, rot) == rot");
}

VERIF_OBLIGATION(obl_c20_unit_vector)
{
    Real3 v{verif_nondet_f64("v"), verif_nondet_f64("v"), verif_nondet_f64("v")};
    verif_assume(!(v[0] == 0 && v[1] == 0 && v[2] == 0));
    Real3 u = make_unit_vector(v);
    verif_reach("unit_vector");
    double vv = v[0] * v[0] + v[1] * v[1] + v[2] * v[2];
    verif_assert(verif_close(u[0] * u[0] + u[1] * u[1] + u[2] * u[2], 1.0, 1.0), "make_unit_vector gives a unit vector");
    for (int k = 0; k < 3; ++k)
        verif_assert(verif_close(u[k] * u[k] * vv, v[k] * v[k], vv) && u[k] * v[k] >= 0, "make_unit_vector keeps the direction");
}
