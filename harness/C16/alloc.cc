// C16.1: StackAllocator<Secondary> from an arbitrary valid state, one allocation with an arbitrary count
#include "verif_celer.hh"
#include "verif_coll.hh"

#include "corecel/data/StackAllocator.hh"
#include "celeritas/phys/Secondary.hh"

using namespace celeritas;

constexpr unsigned CAP = 4;  // storage elements actually backed by memory (pointer checks)

VERIF_OBLIGATION(obl_c16_alloc_step)
{
    Secondary storage[CAP];
    size_type size_cell[1];
    unsigned cap = verif_nondet_u32("capacity");
    verif_assume(cap >= 1 && cap <= CAP);
    for (unsigned i = 0; i < CAP; ++i)
    {
        storage[i].particle_id = ParticleId{verif_nondet_u32("pid")};
        double e = verif_nondet_f64("e");
        verif_assume(e == e);
        storage[i].energy = units::MevEnergy{e};
    }
    StackAllocatorData<Secondary, Ownership::reference, MemSpace::native> data;
    verif::bind(data.storage, storage, cap);
    verif::bind(data.size, size_cell, 1);
    size_type old = verif_nondet_u32("size");
    verif_assume(old <= cap);  // representation invariant: size <= capacity between kernels
    size_cell[0] = old;
    size_type count = verif_nondet_u32("count");
    verif_assume(count >= 1 && count <= 65536);  // stated bound: no 32-bit wrap of start+count
    Secondary before[CAP];
    for (unsigned i = 0; i < CAP; ++i)
        before[i] = storage[i];

    StackAllocator<Secondary> alloc(data);
    Secondary* p = alloc(count);
    verif_reach("alloc");
    if (p == nullptr)
    {
        verif_assert(old + count > cap, "fails only when the request does not fit");
        verif_assert(size_cell[0] == old, "failed allocation leaves size unchanged");
        for (unsigned i = 0; i < CAP; ++i)
            verif_assert(storage[i].particle_id == before[i].particle_id, "failed allocation writes nothing");
    }
    else
    {
        verif_assert(old + count <= cap, "succeeds only when the request fits");
        verif_assert(p == storage + old, "block starts at the old size");
        verif_assert(size_cell[0] == old + count, "size advanced by count");
        for (unsigned i = 0; i < CAP; ++i)
        {
            if (i < old)
                verif_assert(storage[i].particle_id == before[i].particle_id && storage[i].energy.value() == before[i].energy.value(),
                             "previously allocated elements untouched (no overlap)");
            else if (i < old + count)
                verif_assert(!storage[i], "new elements default-initialised (null secondary)");
        }
    }
    verif_assert(alloc.size() <= alloc.capacity(), "size <= capacity afterwards");
    verif_assert(alloc.get().size() == size_cell[0], "get() spans exactly size elements");
    alloc.clear();
    verif_assert(alloc.size() == 0 && alloc.get().size() == 0, "clear() resets");
}
