// C04: discrete interactors, REAL mode, stub RNG (arbitrary canonical values, counted), real StackAllocator over a tiny buffer.
// Rejection loops are memoryless (an iteration reads nothing written by an earlier one except the engine), so they are
// explored up to a stated number of iterations; deeper paths are outside the bound and counted in the evidence.
#include "verif_celer.hh"
#include "verif_coll.hh"

#include "celeritas/random/distribution/GenerateCanonical.hh"

namespace
{
struct StubRng
{
    int draws = 0;
};
}  // namespace
namespace celeritas
{
template<>
class GenerateCanonical<StubRng, double>
{
  public:
    using real_type = double;
    using result_type = double;
    result_type operator()(StubRng& rng)
    {
        ++rng.draws;
        double u = verif_nondet_f64("canonical");
        verif_assume(u > 0 && u < 1);
        return u;
    }
};
}  // namespace celeritas

#include "corecel/data/StackAllocator.hh"
#include "celeritas/phys/ParticleTrackView.hh"
#include "celeritas/phys/Secondary.hh"
#include "celeritas/em/interactor/KleinNishinaInteractor.hh"
#include "celeritas/em/interactor/EPlusGGInteractor.hh"

using namespace celeritas;

namespace
{
constexpr int P = 3;
constexpr double mec2 = 0.5109989461;
struct Fix
{
    units::MevMass mass[P];
    units::ElementaryCharge charge[P];
    real_type decay[P];
    MatterType matter[P];
    ParticleId pid[1];
    real_type energy[1];
    Secondary storage[2];
    size_type size_cell[1];
    NativeCRef<ParticleParamsData> pparams;
    NativeRef<ParticleStateData> pstate;
    StackAllocatorData<Secondary, Ownership::reference, MemSpace::native> sdata;

    Fix(unsigned particle, double e, unsigned capacity)
    {
        pparams = {};
        pstate = {};
        mass[0] = units::MevMass{0};
        mass[1] = mass[2] = units::MevMass{mec2};
        charge[0] = units::ElementaryCharge{0};
        charge[1] = units::ElementaryCharge{-1};
        charge[2] = units::ElementaryCharge{1};
        matter[0] = matter[1] = MatterType::particle;
        matter[2] = MatterType::antiparticle;
        for (int i = 0; i < P; ++i)
            decay[i] = 0;
        verif::bind(pparams.mass, (units::MevMass const*)mass, P);
        verif::bind(pparams.charge, (units::ElementaryCharge const*)charge, P);
        verif::bind(pparams.decay_constant, (real_type const*)decay, P);
        verif::bind(pparams.matter, (MatterType const*)matter, P);
        pid[0] = ParticleId{particle};
        energy[0] = e;
        verif::bind(pstate.particle_id, pid, 1);
        verif::bind(pstate.particle_energy, energy, 1);
        size_cell[0] = 0;
        verif::bind(sdata.storage, storage, capacity);
        verif::bind(sdata.size, size_cell, 1);
    }
};
inline Real3 unit(char const* n)
{
    Real3 d{verif_nondet_f64(n), verif_nondet_f64(n), verif_nondet_f64(n)};
    verif_assume(verif_approx_eq(d[0] * d[0] + d[1] * d[1] + d[2] * d[2], 1.0, 1.0));
    return d;
}
}  // namespace

#ifdef VERIF_MOMENTUM
//! cut for ReciprocalDistribution::operator() in the momentum obligation: any value (its range [a, b] is assumed by the obligation, which knows a and b)
static double g_eps = 0;
extern "C" double stub_recip(void const* self, StubRng& rng)
{
    ++rng.draws;
    g_eps = verif_nondet_f64("reciprocal_sample");
    return g_eps;
}
#endif
#ifdef VERIF_CUT_ROTATE
//! cut for celeritas::rotate: any unit vector whose cosine with the axis is the polar cosine of the local vector (the contract decided in C20.1)
extern "C" Real3 stub_rotate(Real3 const& dir, Real3 const& rot)
{
    Real3 out{verif_nondet_f64("rotated"), verif_nondet_f64("rotated"), verif_nondet_f64("rotated")};
    verif_assume(verif_approx_eq(out[0] * out[0] + out[1] * out[1] + out[2] * out[2], 1.0, 1.0));
    verif_assume(verif_approx_eq(out[0] * rot[0] + out[1] * rot[1] + out[2] * rot[2], dir[2], 1.0));
    return out;
}
#endif

VERIF_OBLIGATION(obl_c04_klein_nishina)
{
    double e = verif_nondet_f64("inc_energy");
    verif_assume(e > 0);
    unsigned cap = verif_nondet_u32("capacity");
    verif_assume(cap <= 1);
    Fix f(0, e, cap ? 1 : 0);
    KleinNishinaData shared;
    shared.ids.electron = ParticleId{1};
    shared.ids.gamma = ParticleId{0};
    shared.inv_electron_mass = 1 / mec2;
    ParticleTrackView particle(f.pparams, f.pstate, TrackSlotId{0});
    StackAllocator<Secondary> allocate(f.sdata);
    Real3 dir = unit("inc_dir");
    KleinNishinaInteractor interact(shared, particle, dir, allocate);
    StubRng rng;
    Interaction r = interact(rng);
    verif_reach("kn");
    if (cap == 0)
    {
        verif_assert(r.action == Interaction::Action::failed && r.secondaries.size() == 0 && f.size_cell[0] == 0, "no secondary storage: explicit failure, nothing emitted");
        return;
    }
    verif_assert(r.action == Interaction::Action::scattered, "scattered");
    verif_assert(r.secondaries.size() == 1, "one secondary slot");
    Secondary const& s = f.storage[0];
    double out = r.energy.value(), dep = r.energy_deposition.value();
#ifdef VERIF_POSITIVITY
    verif_assert(out > 0 && out <= e, "outgoing photon energy in (0, E]");
    verif_assert(dep >= 0 && s.energy.value() >= 0, "non-negative energies");
#endif
    if (s)
    {
        verif_assert(s.particle_id == ParticleId{1}, "secondary is an electron");
        verif_assert(verif_close(out + s.energy.value() + dep, e, e), "E_in = E_gamma' + E_electron + deposit");
        verif_assert(dep == 0, "nothing deposited when the electron is emitted");
        verif_assert(s.energy >= KleinNishinaInteractor::secondary_cutoff(), "emitted electron is above the model's production threshold");
    }
    else
        verif_assert(verif_close(out + dep, e, e), "electron below threshold: its energy is deposited locally, E_in = E_gamma' + deposit");
    verif_assert(rng.draws >= 4 && rng.draws <= 4 + 3 * 3, "bounded number of draws: 3 per rejection iteration + direction");
}

VERIF_OBLIGATION(obl_c04_eplusgg)
{
    double e = verif_nondet_f64("inc_energy");
    verif_assume(e >= 0);
    unsigned cap = verif_nondet_u32("capacity");
    verif_assume(cap <= 2);
    Fix f(2, e, cap);
    EPlusGGData shared;
    shared.positron = ParticleId{2};
    shared.gamma = ParticleId{0};
    shared.electron_mass = units::MevMass{mec2};
    ParticleTrackView particle(f.pparams, f.pstate, TrackSlotId{0});
    StackAllocator<Secondary> allocate(f.sdata);
    Real3 dir = unit("inc_dir");
#ifdef VERIF_MOMENTUM
    // optional witness point inside the region of known finding F9 where every square root is rational (tau = 2/3: tau/(tau+2) = 1/4,
    // tau (tau+2) = 16/9), incident direction +z: keeps the in-flight counterexample within reach of the nonlinear solvers
    if (verif_nondet_bool("witness_point"))
        verif_assume(3 * e == 2 * mec2 && dir[0] == 0 && dir[1] == 0 && dir[2] == 1);
#endif
    EPlusGGInteractor interact(shared, particle, dir, allocate);
    StubRng rng;
    Interaction r = interact(rng);
    if (e > 0)
    {
        // witness terms for the lemma schemas: the sampler draws eps = a exp(u log(b/a)); exp(log(b/a)) = b/a bounds it by b
        double tau = e / mec2;
        double sq = std::sqrt(tau / (tau + 2)) * 0.5;
        double w = std::exp(std::log((0.5 + sq) / (0.5 - sq)));
        verif_assume(verif_approx_eq(w, (0.5 + sq) / (0.5 - sq), 1.0));
    }
    verif_reach("eplusgg");
    if (cap < 2)
    {
        verif_assert(r.action == Interaction::Action::failed && r.secondaries.size() == 0 && f.size_cell[0] == 0, "insufficient secondary storage: explicit failure, nothing emitted");
        return;
    }
    verif_assert(r.action == Interaction::Action::absorbed && r.secondaries.size() == 2, "positron absorbed, two photons");
    verif_assert(f.storage[0].particle_id == ParticleId{0} && f.storage[1].particle_id == ParticleId{0}, "both secondaries are photons");
    double e0 = f.storage[0].energy.value(), e1 = f.storage[1].energy.value();
#ifdef VERIF_POSITIVITY
    verif_assert(e0 > 0 && e1 > 0, "positive photon energies");
#endif
    verif_assert(verif_close(e0 + e1 + r.energy_deposition.value(), e + 2 * mec2, e + 2 * mec2), "E_in + 2 m c^2 = E_gamma1 + E_gamma2 (+ deposit)");
#ifdef VERIF_MOMENTUM
    // both products are returned: the photon momenta must add up to the positron's momentum
    // known finding F9: in flight the second photon is emitted along p_inc - T * inc_dir (i.e. along the incident direction) instead of p_inc - E1 * dir1
    verif_assume(!verif_known_region("F9", e > 0));
    if (e > 0)
    {
        double tau_ = e / mec2;
        double sq_ = std::sqrt(tau_ / (tau_ + 2)) * 0.5;
        verif_assume(g_eps >= 0.5 - sq_ && g_eps <= 0.5 + sq_);
    }
    double pinc = std::sqrt(e * (e + 2 * mec2));
    Real3 const& d0 = f.storage[0].direction;
    Real3 const& d1 = f.storage[1].direction;
    // component along the incident direction (necessary condition; the transverse components follow the same pattern)
    double c0 = d0[0] * dir[0] + d0[1] * dir[1] + d0[2] * dir[2];
    double c1 = d1[0] * dir[0] + d1[1] * dir[1] + d1[2] * dir[2];
    verif_assert(verif_close(e0 * c0 + e1 * c1, pinc, e + 2 * mec2), "photon momenta along the incident direction add up to the positron momentum");
#endif
}
