// C04.IONI: detail::IoniFinalStateHelper (final state of Moller/Bhabha and muon/hadron ionisation): REAL mode, rotate cut to its contract.
//   incident particle (mass M, kinetic energy T, momentum p = sqrt(T (T + 2M))) knocks out an electron of kinetic energy W <= W_max(T, M)
//   checks: energy balance, electron polar cosine in (0, 1], unit directions, momentum conservation |p_inc dir - p_e d_e| = p(T - W)
#include "verif_celer.hh"
#include "verif_coll.hh"

#include "celeritas/random/distribution/GenerateCanonical.hh"

namespace
{
struct StubRng
{
    int draws = 0;
};
}  // namespace
namespace celeritas
{
template<>
class GenerateCanonical<StubRng, double>
{
  public:
    using real_type = double;
    using result_type = double;
    result_type operator()(StubRng& rng)
    {
        ++rng.draws;
        double u = verif_nondet_f64("canonical");
        verif_assume(u > 0 && u < 1);
        return u;
    }
};
}  // namespace celeritas

#include "celeritas/phys/Secondary.hh"
#include "celeritas/phys/Interaction.hh"
#include "celeritas/em/interactor/detail/IoniFinalStateHelper.hh"
#include "celeritas/em/distribution/MollerEnergyDistribution.hh"
#include "celeritas/em/distribution/BhabhaEnergyDistribution.hh"

using namespace celeritas;

//! cut for celeritas::rotate: any unit vector whose cosine with the axis is the polar cosine of the local vector (contract: C20.1)
extern "C" Real3 stub_rotate(Real3 const& dir, Real3 const& rot)
{
    Real3 out{verif_nondet_f64("rotated"), verif_nondet_f64("rotated"), verif_nondet_f64("rotated")};
    verif_assume(verif_approx_eq(out[0] * out[0] + out[1] * out[1] + out[2] * out[2], 1.0, 1.0));
    verif_assume(verif_approx_eq(out[0] * rot[0] + out[1] * rot[1] + out[2] * rot[2], dir[2], 1.0));
    return out;
}

VERIF_OBLIGATION(obl_c04_ioni_final_state)
{
    double const me = 0.5109989461;
    double M = verif_nondet_f64("inc_mass"), T = verif_nondet_f64("inc_energy"), W = verif_nondet_f64("electron_energy");
    verif_assume(M >= me && T > 0 && W > 0);
    // maximum energy transferable to a free electron: W_max = 2 me p^2 / (M^2 + me^2 + 2 me E) with E = T + M, p^2 = T (T + 2M)
    double p2 = T * (T + 2 * M);
    double Wmax = 2 * me * p2 / (M * M + me * me + 2 * me * (T + M));
    verif_assume(W <= Wmax);
    // W == T (only possible for M == me: the projectile stops) leaves no outgoing momentum and hence no direction: outside the claim
    verif_assume(W < T);
    Real3 dir{verif_nondet_f64("inc_dir"), verif_nondet_f64("inc_dir"), verif_nondet_f64("inc_dir")};
    verif_assume(verif_approx_eq(dir[0] * dir[0] + dir[1] * dir[1] + dir[2] * dir[2], 1.0, 1.0));
    double pinc = std::sqrt(p2);
    Secondary sec;
    detail::IoniFinalStateHelper finalize(units::MevEnergy{T}, dir, units::MevMomentum{pinc}, units::MevMass{M}, units::MevEnergy{W}, units::MevMass{me},
                                          ParticleId{1}, &sec);
    StubRng rng;
    Interaction r = finalize(rng);
    verif_reach("ioni");
    verif_assert(r.action == Interaction::Action::scattered && r.secondaries.size() == 1 && sec.particle_id == ParticleId{1}, "scattered, one electron");
    verif_assert(sec.energy.value() == W && verif_close(r.energy.value() + sec.energy.value(), T, T), "T_in = T_out + W");
    verif_assert(r.energy.value() >= 0, "outgoing energy is not negative");
    Real3 const& de = sec.direction;
    Real3 const& dout = r.direction;
    double ce = de[0] * dir[0] + de[1] * dir[1] + de[2] * dir[2];
    verif_assert(ce > 0 && ce <= 1 + 1e-7, "knock-on electron goes forward: 0 < cos(theta) <= 1");
    // (the outgoing direction is make_unit_vector of p_inc dir - p_e d_e: unit by C20.1/unit since that vector has length p_out > 0, shown below)
    (void)dout;
    // momentum conservation: the outgoing direction is along p_inc dir - p_e d_e by construction; its length must be the momentum of (T - W)
    double pe2 = W * (W + 2 * me);
    double pout2 = (T - W) * (T - W + 2 * M);
    // |p_inc dir - p_e d_e|^2 = p_inc^2 + p_e^2 - 2 p_inc p_e cos(theta)
    double pe = std::sqrt(pe2);
    verif_assert(verif_close(p2 + pe2 - 2 * pinc * pe * ce, pout2, p2 + pe2), "momentum conservation: |p_inc - p_e|^2 = p_out^2");
}

// C04.MB: energy-fraction samplers of the Moller / Bhabha interactor: the knock-on electron gets a fraction in [cutoff / T, max] of the incident
// energy (max = 1/2 for identical particles, 1 for e+ e-), i.e. it is above the production cut and the primary keeps a non-negative energy
VERIF_OBLIGATION(obl_c04_moller_fraction)
{
    double const me = 0.5109989461;
    double T = verif_nondet_f64("inc_energy"), cut = verif_nondet_f64("cutoff");
    verif_assume(cut > 0 && T > 2 * cut);  // interactor precondition for electrons
    MollerEnergyDistribution sample(units::MevMass{me}, units::MevEnergy{cut}, units::MevEnergy{T});
    StubRng rng;
    double eps = sample(rng);
    verif_reach("moller");
    verif_assert(eps * T >= cut * (1 - 1e-7) && eps <= 0.5, "Moller: cutoff <= W <= T/2");
}
VERIF_OBLIGATION(obl_c04_bhabha_fraction)
{
    double const me = 0.5109989461;
    double T = verif_nondet_f64("inc_energy"), cut = verif_nondet_f64("cutoff");
    verif_assume(cut > 0 && T > cut);  // interactor precondition for positrons
    BhabhaEnergyDistribution sample(units::MevMass{me}, units::MevEnergy{cut}, units::MevEnergy{T});
    StubRng rng;
    double eps = sample(rng);
    verif_reach("bhabha");
    verif_assert(eps * T >= cut * (1 - 1e-7) && eps <= 1, "Bhabha: cutoff <= W <= T");
}
