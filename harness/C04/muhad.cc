// C04.MUHAD: knock-on electron energy samplers of the muon / hadron ionisation models (REAL mode, stub RNG): the sampled energy lies between the
// production cut and the kinematic maximum W_max(T, M) = 2 me p^2 / (M^2 + me^2 + 2 me E) -- the precondition under which IoniFinalStateHelper
// (C04.IONI) conserves energy and momentum -- for every projectile mass, energy and cut.
#include "verif_celer.hh"
#include "verif_coll.hh"

#include "celeritas/random/distribution/GenerateCanonical.hh"

namespace
{
struct StubRng
{
    int draws = 0;
};
}  // namespace
namespace celeritas
{
template<>
class GenerateCanonical<StubRng, double>
{
  public:
    using real_type = double;
    using result_type = double;
    result_type operator()(StubRng& rng)
    {
        ++rng.draws;
        double u = verif_nondet_f64("canonical");
        verif_assume(u > 0 && u < 1);
        return u;
    }
};
}  // namespace celeritas

#include "celeritas/phys/ParticleTrackView.hh"
#include "celeritas/em/distribution/BetheBlochEnergyDistribution.hh"
#include "celeritas/em/distribution/BraggICRU73QOEnergyDistribution.hh"
#include "celeritas/em/distribution/MuBBEnergyDistribution.hh"

using namespace celeritas;

namespace
{
constexpr double me = 0.5109989461;
struct PFix
{
    units::MevMass mass[1];
    units::ElementaryCharge charge[1];
    real_type decay[1];
    MatterType matter[1];
    ParticleId pid[1];
    real_type energy[1];
    NativeCRef<ParticleParamsData> pparams;
    NativeRef<ParticleStateData> pstate;
    double M, T;
    PFix()
    {
        M = verif_nondet_f64("inc_mass");
        T = verif_nondet_f64("inc_energy");
        verif_assume(M > me && T > 0);
        mass[0] = units::MevMass{M};
        charge[0] = units::ElementaryCharge{1};
        decay[0] = 0;
        matter[0] = MatterType::particle;
        pid[0] = ParticleId{0};
        energy[0] = T;
        verif::bind(pparams.mass, (units::MevMass const*)mass, 1);
        verif::bind(pparams.charge, (units::ElementaryCharge const*)charge, 1);
        verif::bind(pparams.decay_constant, (real_type const*)decay, 1);
        verif::bind(pparams.matter, (MatterType const*)matter, 1);
        verif::bind(pstate.particle_id, pid, 1);
        verif::bind(pstate.particle_energy, energy, 1);
    }
    double wmax() const { return 2 * me * T * (T + 2 * M) / (M * M + me * me + 2 * me * (T + M)); }
};
template<class Sampler>
inline void sampler_range(char const* what, bool min_is_cut)
{
    PFix f;
    double cut = verif_nondet_f64("cutoff");
    verif_assume(cut > 0 && cut < f.wmax());  // otherwise the interactor returns "unchanged" without sampling
    ParticleTrackView particle(f.pparams, f.pstate, TrackSlotId{0});
    Sampler sample(particle, units::MevEnergy{cut}, units::MevMass{me});
    double wmin = sample.min_secondary_energy().value();
    // (the Bragg / ICRU73QO sampler lowers its minimum to min(cut, T_lowest * M / m_p): its "own threshold" may lie below the cut)
    verif_assert(min_is_cut ? wmin == cut : (wmin <= cut && wmin > 0), "minimum secondary energy is the production cut (or the model's lower limit below it)");
    verif_assert(verif_close(sample.max_secondary_energy().value(), f.wmax(), f.wmax()), "maximum secondary energy is the kinematic limit W_max(T, M)");
    StubRng rng;
    double w = sample(rng).value();
    verif_reach(what);
    verif_assert(w >= wmin * (1 - 1e-7) && w <= f.wmax() * (1 + 1e-7), "model threshold <= W <= W_max");
}
}  // namespace

VERIF_OBLIGATION(obl_c04_bethebloch_range)
{
    sampler_range<BetheBlochEnergyDistribution>("bethebloch", true);
}
VERIF_OBLIGATION(obl_c04_bragg_range)
{
    sampler_range<BraggICRU73QOEnergyDistribution>("bragg", false);
}
VERIF_OBLIGATION(obl_c04_mubb_range)
{
    sampler_range<MuBBEnergyDistribution>("mubb", true);
}
