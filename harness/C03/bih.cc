// C03.1: point location through the bounding interval hierarchy (BIHTraverser) never misses and never invents a volume.
// Hand-laid trees of two shapes with FULLY SYMBOLIC plane positions, axes, bounding boxes and "is the point really inside volume v" oracle values:
//   shape 0:  inner(0) -> leaf(1), leaf(2)
//   shape 1:  inner(0) -> [ inner(1) -> leaf(2), leaf(3) ], leaf(4)
// every leaf holds VERIF_VPL volumes, one more volume has an infinite bounding box (inf_volids).  Builder invariant assumed (BIHBuilder::construct_tree):
// left plane position = max upper bound of the bboxes in the left subtree along the node's axis, right plane position = min lower bound on the right.
#include "verif_celer.hh"
#include "verif_coll.hh"

#include "orange/OrangeData.hh"
#include "orange/detail/BIHData.hh"
#include "orange/detail/BIHTraverser.hh"

using namespace celeritas;
using namespace celeritas::detail;

#ifndef VERIF_SHAPE
#    define VERIF_SHAPE 0
#endif

namespace
{
constexpr int NLEAF = (VERIF_SHAPE == 0 ? 2 : 3);
constexpr int NINNER = (VERIF_SHAPE == 0 ? 1 : 2);
#ifndef VERIF_VPL
#    define VERIF_VPL 2
#endif
constexpr int VPL = VERIF_VPL;  // volumes per leaf
constexpr int NV = VPL * NLEAF + 1;  // last one is the infinite volume

struct Tree
{
    static inline FastBBox bboxes[NV];
    static inline LocalVolumeId volids[NV];
    static inline BIHInnerNode inner[NINNER];
    static inline BIHLeafNode leaves[NLEAF];
    static inline FastBBoxId bbox_ids[NV];
    BIHTreeData<Ownership::const_reference, MemSpace::native> storage;
    BIHTree tree;
};

inline float fnum(char const* n)
{
    float f = verif_nondet_f32(n);
    verif_assume(f == f);
    return f;
}
inline double dnum(char const* n)
{
    double f = verif_nondet_f64(n);
    verif_assume(f == f);
    return f;
}
inline bool in_box(FastBBox const& b, Real3 const& p)
{
    bool r = true;
    for (int k = 0; k < 3; ++k)
        r = r & (b.lower()[k] <= p[k]) & (p[k] <= b.upper()[k]);
    return r;
}
//! leaves (by leaf index) below the left / right edge of inner node i
inline bool leaf_under(int inner, int edge, int leaf)
{
    if (VERIF_SHAPE == 0)
        return leaf == edge;
    // shape 1: inner 0: left = {leaf 0, leaf 1} (through inner 1), right = {leaf 2}; inner 1: left = {leaf 0}, right = {leaf 1}
    if (inner == 0)
        return edge == 0 ? (leaf == 0 || leaf == 1) : (leaf == 2);
    return leaf == edge;
}
}  // namespace

VERIF_OBLIGATION(obl_c03_bih)
{
    Tree t;
    Real3 p{dnum("point"), dnum("point"), dnum("point")};
    // volumes and boxes
    for (int v = 0; v < NV; ++v)
    {
        Tree::volids[v] = LocalVolumeId{(unsigned)v};
        Tree::bbox_ids[v] = FastBBoxId{(unsigned)v};
        if (v == NV - 1)
        {
            Tree::bboxes[v] = FastBBox::from_infinite();
            continue;
        }
        Array<float, 3> lo{fnum("lo"), fnum("lo"), fnum("lo")}, hi{fnum("hi"), fnum("hi"), fnum("hi")};
        verif_assume((lo[0] <= hi[0]) & (lo[1] <= hi[1]) & (lo[2] <= hi[2]));
        Tree::bboxes[v] = FastBBox::from_unchecked(lo, hi);
        // the probe point is not exactly on a box face (boxes are bumped outwards by the builder; exact ties are outside the property)
        for (int k = 0; k < 3; ++k)
            verif_assume((p[k] != lo[k]) & (p[k] != hi[k]));
    }
    // leaves: leaf l holds volumes VPL*l .. VPL*l + VPL - 1
    for (int l = 0; l < NLEAF; ++l)
        Tree::leaves[l].vol_ids = ItemRange<LocalVolumeId>(ItemId<LocalVolumeId>(VPL * l), ItemId<LocalVolumeId>(VPL * l + VPL));
    // inner nodes
    for (int i = 0; i < NINNER; ++i)
    {
        unsigned ax = verif_nondet_u32("axis");
        verif_assume(ax < 3);
        Tree::inner[i].axis = to_axis(ax);
        float lpos = fnum("left_plane"), rpos = fnum("right_plane");
        Tree::inner[i].bounding_planes[BIHInnerNode::Edge::left].position = lpos;
        Tree::inner[i].bounding_planes[BIHInnerNode::Edge::right].position = rpos;
        // builder invariant
        for (int l = 0; l < NLEAF; ++l)
            for (int j = 0; j < VPL; ++j)
            {
                FastBBox const& b = Tree::bboxes[VPL * l + j];
                if (leaf_under(i, 0, l))
                    verif_assume(b.upper()[ax] <= lpos);
                if (leaf_under(i, 1, l))
                    verif_assume(b.lower()[ax] >= rpos);
            }
    }
    unsigned const LO = NINNER;  // node id of the first leaf
    if (VERIF_SHAPE == 0)
    {
        Tree::inner[0].parent = BIHNodeId{};
        Tree::inner[0].bounding_planes[BIHInnerNode::Edge::left].child = BIHNodeId{LO + 0};
        Tree::inner[0].bounding_planes[BIHInnerNode::Edge::right].child = BIHNodeId{LO + 1};
        Tree::leaves[0].parent = BIHNodeId{0};
        Tree::leaves[1].parent = BIHNodeId{0};
    }
    else
    {
        Tree::inner[0].parent = BIHNodeId{};
        Tree::inner[0].bounding_planes[BIHInnerNode::Edge::left].child = BIHNodeId{1};
        Tree::inner[0].bounding_planes[BIHInnerNode::Edge::right].child = BIHNodeId{LO + 2};
        Tree::inner[NINNER - 1].parent = BIHNodeId{0};
        Tree::inner[NINNER - 1].bounding_planes[BIHInnerNode::Edge::left].child = BIHNodeId{LO + 0};
        Tree::inner[NINNER - 1].bounding_planes[BIHInnerNode::Edge::right].child = BIHNodeId{LO + 1};
        Tree::leaves[0].parent = BIHNodeId{1};
        Tree::leaves[1].parent = BIHNodeId{1};
        Tree::leaves[NLEAF - 1].parent = BIHNodeId{0};
    }
    verif::bind(t.storage.bboxes, (FastBBox const*)Tree::bboxes, NV);
    verif::bind(t.storage.local_volume_ids, (LocalVolumeId const*)Tree::volids, NV);
    verif::bind(t.storage.inner_nodes, (BIHInnerNode const*)Tree::inner, NINNER);
    verif::bind(t.storage.leaf_nodes, (BIHLeafNode const*)Tree::leaves, NLEAF);
    t.tree.bboxes = ItemMap<LocalVolumeId, FastBBoxId>(Range<FastBBoxId>(FastBBoxId{0}, FastBBoxId{(unsigned)NV}));
    t.tree.inner_nodes = ItemRange<BIHInnerNode>(ItemId<BIHInnerNode>(0), ItemId<BIHInnerNode>(NINNER));
    t.tree.leaf_nodes = ItemRange<BIHLeafNode>(ItemId<BIHLeafNode>(0), ItemId<BIHLeafNode>(NLEAF));
    t.tree.inf_volids = ItemRange<LocalVolumeId>(ItemId<LocalVolumeId>(NV - 1), ItemId<LocalVolumeId>(NV));

    // oracle: is the point really inside volume v (arbitrary, but a volume contains no point outside its bounding box)
    bool inside[NV];
    int asked_outside_bbox = 0;
    for (int v = 0; v < NV; ++v)
    {
        inside[v] = verif_nondet_bool("inside");
        verif_assume(!inside[v] | in_box(Tree::bboxes[v], p));
    }
    BIHTraverser find(t.tree, t.storage);
    LocalVolumeId r = find(p, [&](LocalVolumeId id) {
        unsigned v = id.unchecked_get();
        if (v >= (unsigned)NV || !in_box(Tree::bboxes[v], p))
            ++asked_outside_bbox;
        return v < (unsigned)NV ? inside[v] : false;
    });
    verif_reach("bih");
    bool any = false;
    for (int v = 0; v < NV; ++v)
        any = any | inside[v];
    verif_assert(static_cast<bool>(r) == any, "a volume is found iff the point is inside some volume");
    verif_assert(!r || (r.unchecked_get() < (unsigned)NV && inside[r.unchecked_get() < (unsigned)NV ? r.unchecked_get() : 0]), "the volume found contains the point");
    verif_assert(asked_outside_bbox == 0, "the membership test is only evaluated for volumes whose bounding box contains the point");
}
