// C05 / C01 / C16: one-step relational obligations over the real along-step and post-step kernels
#include "minicore.hh"

#include "celeritas/global/alongstep/detail/ElossApplier.hh"
#include "celeritas/global/alongstep/detail/TimeUpdater.hh"
#include "celeritas/global/alongstep/detail/TrackUpdater.hh"
#include "celeritas/phys/InteractionApplier.hh"
// the host-only logging block of TrackingCutExecutor (message formatting through Logger/ostream) gets an empty body
#undef CELER_DEVICE_COMPILE
#define CELER_DEVICE_COMPILE 1
#include "celeritas/phys/detail/TrackingCutExecutor.hh"
#undef CELER_DEVICE_COMPILE
#define CELER_DEVICE_COMPILE 0

using namespace celeritas;
using namespace celeritas::detail;

constexpr int N = 2;
using MC = verif::MiniCore<N, 2, 3, 2>;

namespace
{
inline void setup(MC& mc)
{
    for (int i = 0; i < N; ++i)
        mc.symbolic_slot(i);
    for (int p = 0; p < MC::P; ++p)
        mc.proc_groups[p].has_at_rest = verif_nondet_bool("has_at_rest");
}

struct Snap
{
    TrackStatus status[N];
    real_type energy[N], edep[N], time[N], step[N], mfp[N];
    size_type steps[N];
    ActionId post[N], along[N];
    TrackId track[N];
};
inline void snap(MC& mc, Snap& s)
{
    for (int i = 0; i < N; ++i)
    {
        s.status[i] = mc.s_status[i];
        s.energy[i] = mc.p_energy[i];
        s.edep[i] = mc.ph_state[i].energy_deposition;
        s.time[i] = mc.s_time[i];
        s.step[i] = mc.s_step[i];
        s.mfp[i] = mc.ph_state[i].interaction_mfp;
        s.steps[i] = mc.s_steps[i];
        s.post[i] = mc.s_post[i];
        s.along[i] = mc.s_along[i];
        s.track[i] = mc.s_track[i];
    }
}
inline void other_untouched(MC& mc, Snap const& s)
{
    verif_assert(mc.s_status[1] == s.status[1] && mc.p_energy[1] == s.energy[1] && mc.ph_state[1].energy_deposition == s.edep[1]
                     && mc.s_time[1] == s.time[1] && mc.s_step[1] == s.step[1] && mc.s_steps[1] == s.steps[1] && mc.s_post[1] == s.post[1],
                 "the other slot is untouched (writes confined to the executor's own slot)");
}

//! energy-loss stub honouring the documented contract of the EH concept
struct StubEloss
{
    bool applicable;
    real_type deposited;
    bool is_applicable(CoreTrackView const&) const { return applicable; }
    units::MevEnergy calc_eloss(CoreTrackView const&, real_type, bool) const { return units::MevEnergy{deposited}; }
};
}  // namespace

// C01.1 / C05.5: ElossApplier
VERIF_OBLIGATION(obl_c05_eloss)
{
    MC mc;
    setup(mc);
    constexpr int t = 0;
    Snap s;
    snap(mc, s);
    StubEloss eh;
    eh.applicable = verif_nondet_bool("eloss_applicable");
    eh.deposited = verif_nondet_f64("deposited");
    bool apply_cut = mc.s_post[t] != mc.params.scalars.boundary_action;
    // contract of calc_eloss (the two CELER_ASSERTs of the applier): 0 <= deposited <= E, and == E only if cuts apply
    verif_assume(eh.deposited >= 0 && eh.deposited <= s.energy[t] && (apply_cut || eh.deposited != s.energy[t]));
    verif_assume(s.edep[t] < 1e100 && s.energy[t] < 1e100);
    ElossApplier<StubEloss> apply{eh};
    apply(mc.track(t));
    verif_reach("eloss");
    if (!eh.applicable || s.energy[t] == 0)
    {
        verif_assert(mc.p_energy[t] == s.energy[t] && mc.ph_state[t].energy_deposition == s.edep[t] && mc.s_status[t] == s.status[t]
                         && mc.s_post[t] == s.post[t],
                     "not applicable / already stopped: nothing changes");
    }
    else
    {
        verif_assert(mc.p_energy[t] == s.energy[t] - eh.deposited, "kinetic energy decreases by exactly the deposited amount");
        verif_assert(mc.ph_state[t].energy_deposition == s.edep[t] + eh.deposited, "local deposition increases by exactly the same amount");
        verif_assert(mc.p_energy[t] <= s.energy[t] && mc.p_energy[t] >= 0, "energy never increases, stays non-negative");
        if (mc.p_energy[t] == 0)
        {
            bool at_rest = mc.proc_groups[mc.p_id[t].unchecked_get()].has_at_rest;
            if (!at_rest)
                verif_assert(mc.s_status[t] == TrackStatus::killed && mc.s_post[t] == ActionId{5}, "stopped without at-rest process: killed, range action");
            else
                verif_assert(mc.s_status[t] == s.status[t] && mc.s_post[t] == ActionId{6}, "stopped with at-rest process: discrete action selected, status kept");
        }
        else
            verif_assert(mc.s_status[t] == s.status[t] && mc.s_post[t] == s.post[t], "still moving: status and post-step action unchanged");
    }
    verif_assert(mc.s_step[t] == s.step[t] && mc.s_time[t] == s.time[t], "step length and time not touched by the energy loss");
    other_untouched(mc, s);
}

// C05.4: TimeUpdater / TrackUpdater
VERIF_OBLIGATION(obl_c05_time)
{
    MC mc;
    setup(mc);
    constexpr int t = 0;
    Snap s;
    snap(mc, s);
    verif_assume(s.time[t] < 1e100 && s.step[t] < 1e100 && s.energy[t] < 1e100);
    TimeUpdater{}(mc.track(t));
    verif_reach("time");
    verif_assert(mc.s_time[t] >= s.time[t], "time never decreases");
    if (s.status[t] == TrackStatus::errored || s.energy[t] == 0)
        verif_assert(mc.s_time[t] == s.time[t], "errored or stopped track: time unchanged");
    verif_assert(mc.p_energy[t] == s.energy[t] && mc.s_step[t] == s.step[t] && mc.s_status[t] == s.status[t] && mc.ph_state[t].energy_deposition == s.edep[t],
                 "time update touches nothing else");
    other_untouched(mc, s);
}

VERIF_OBLIGATION(obl_c05_track_update)
{
    MC mc;
    setup(mc);
    constexpr int t = 0;
    Snap s;
    snap(mc, s);
    real_type xs = mc.ph_state[t].macro_xs;
    verif_assume(s.step[t] < 1e100 && xs < 1e100 && s.mfp[t] < 1e100);
    verif_assume(s.steps[t] < 0xffffffffu);
    // alive tracks have a post-step action; material/particle valid (make_physics_view)
    verif_assume(s.status[t] != TrackStatus::alive || static_cast<bool>(s.post[t]));
    TrackUpdater{}(mc.track(t));
    verif_reach("track_update");
    if (s.status[t] == TrackStatus::errored)
        verif_assert(mc.s_steps[t] == s.steps[t] && mc.ph_state[t].interaction_mfp == s.mfp[t], "errored: nothing updated");
    else
    {
        verif_assert(mc.s_steps[t] == s.steps[t] + 1, "step counter increases by exactly one");
        if (s.status[t] == TrackStatus::alive && s.post[t] != ActionId{6})
            verif_assert(mc.ph_state[t].interaction_mfp == s.mfp[t] - s.step[t] * xs, "remaining MFP decreases by step * macroscopic xs");
        else
            verif_assert(mc.ph_state[t].interaction_mfp == s.mfp[t], "MFP kept when the discrete interaction was selected or the track is not alive");
    }
    verif_assert(mc.s_status[t] == s.status[t] && mc.p_energy[t] == s.energy[t] && mc.s_time[t] == s.time[t] && mc.s_step[t] == s.step[t],
                 "status, energy, time, step length untouched");
    other_untouched(mc, s);
}

// C05.1: SimTrackView::step_limit only ever lowers the step
VERIF_OBLIGATION(obl_c05_step_limit)
{
    MC mc;
    setup(mc);
    constexpr int t = 0;
    Snap s;
    snap(mc, s);
    StepLimit sl;
    sl.step = verif_nondet_f64("limit");
    verif_assume(sl.step >= 0);
    unsigned a = verif_nondet_u32("limit_action");
    verif_assume(a < (unsigned)MC::NA);
    sl.action = ActionId{a};
    auto sim = mc.track(t).make_sim_view();
    bool limited = sim.step_limit(sl);
    verif_reach("step_limit");
    verif_assert(mc.s_step[t] <= s.step[t] && mc.s_step[t] <= sl.step, "step length = min(old, limit)");
    verif_assert(limited == (sl.step < s.step[t]), "reports limiting iff strictly smaller");
    verif_assert(limited ? (mc.s_post[t] == sl.action && mc.s_step[t] == sl.step) : (mc.s_post[t] == s.post[t] && mc.s_step[t] == s.step[t]),
                 "action replaced iff the limit was lowered");
    sim.reset_step_limit();
    verif_assert(mc.s_step[t] == std::numeric_limits<real_type>::infinity() && !mc.s_post[t] && !mc.s_along[t], "reset: infinite step, no actions");
    other_untouched(mc, s);
}

// C01.4: TrackingCutExecutor
VERIF_OBLIGATION(obl_c01_tracking_cut)
{
    MC mc;
    setup(mc);
    constexpr int t = 0;
    Snap s;
    snap(mc, s);
    verif_assume(s.energy[t] < 1e100 && s.edep[t] < 1e100);
    auto track = mc.track(t);
    TrackingCutExecutor{}(track);
    verif_reach("tracking_cut");
    unsigned pid = mc.p_id[t].unchecked_get();
    real_type expect = s.energy[t];
    if (pid == 2)
        expect += 2 * mc.mass[2].value();
    verif_assert(mc.ph_state[t].energy_deposition == s.edep[t] + expect, "all kinetic energy (+2mc^2 for a positron) is deposited locally");
    verif_assert(mc.p_energy[t] == 0 && mc.s_status[t] == TrackStatus::killed, "track stopped and killed");
    other_untouched(mc, s);
}

// C01.3 / C16.3: InteractionApplier with a stub interactor returning an arbitrary valid Interaction
namespace
{
#ifndef VERIF_NSEC
#    define VERIF_NSEC 2
#endif
constexpr int NSEC = VERIF_NSEC;
Secondary g_secs[NSEC];
struct StubInteract
{
    Interaction result;
    Interaction operator()(CoreTrackView const&) const { return result; }
};
}  // namespace

VERIF_OBLIGATION(obl_c01_interaction)
{
    MC mc;
    setup(mc);
    constexpr int t = 0;
    Snap s;
    snap(mc, s);
    mc.params.cutoffs.apply_post_interaction = verif_nondet_bool("apply_post_interaction");
    for (int i = 0; i < MC::P * MC::M; ++i)
    {
        mc.cutoffs[i].energy = units::MevEnergy{MC::nonneg("cut_energy")};
        mc.cutoffs[i].range = MC::nonneg("cut_range");
    }
    StubInteract f;
    unsigned act = verif_nondet_u32("action");
    verif_assume(act < 4);
    f.result.action = static_cast<Interaction::Action>(act);
    f.result.energy = units::MevEnergy{MC::nonneg("out_energy")};
    verif_assume(f.result.energy.value() < 1e100);
    for (int d = 0; d < 3; ++d)
        f.result.direction[d] = MC::fin("out_dir");
    f.result.energy_deposition = units::MevEnergy{MC::nonneg("int_edep")};
    verif_assume(f.result.energy_deposition.value() < 1e100 && s.edep[t] < 1e100);
    unsigned ns = verif_nondet_u32("nsec");
    verif_assume(ns <= (unsigned)NSEC);
    Secondary in[NSEC];
    for (int k = 0; k < NSEC; ++k)
    {
        unsigned pid = verif_nondet_u32("sec_pid");
        verif_assume(pid < (unsigned)MC::P);
        g_secs[k].particle_id = ParticleId{pid};
        double e = verif_nondet_f64("sec_e");
        verif_assume(e > 0 && e < 1e100);
        g_secs[k].energy = units::MevEnergy{e};
        for (int d = 0; d < 3; ++d)
            g_secs[k].direction[d] = MC::fin("sec_dir");
        in[k] = g_secs[k];
    }
    f.result.secondaries = Span<Secondary>(g_secs, ns);
    Real3 dir0 = mc.g_dir[t];
    InteractionApplier<StubInteract> apply{std::move(f)};
    Interaction const& r = apply.sample_interaction.result;
    apply(mc.track(t));
    verif_reach("interaction");
    if (r.action == Interaction::Action::failed)
    {
        // C16.3: out of secondary storage: nothing of the physics state changes; the step is limited to zero with the failure action
        verif_assert(mc.p_energy[t] == s.energy[t] && mc.ph_state[t].energy_deposition == s.edep[t] && mc.s_status[t] == s.status[t]
                         && mc.g_dir[t][0] == dir0[0] && mc.g_dir[t][2] == dir0[2] && mc.ph_state[t].secondaries.size() == 0,
                     "failed interaction: energy, direction, status, deposition and secondaries unchanged");
        verif_assert(mc.s_step[t] == (s.step[t] > 0 ? 0 : s.step[t]) && (s.step[t] > 0 ? mc.s_post[t] == ActionId{10} : mc.s_post[t] == s.post[t]),
                     "failed interaction: step limited to zero by the failure action (track interacts again)");
    }
    else if (r.action == Interaction::Action::unchanged)
    {
        verif_assert(mc.p_energy[t] == s.energy[t] && mc.ph_state[t].energy_deposition == s.edep[t] && mc.s_status[t] == s.status[t]
                         && mc.ph_state[t].secondaries.size() == 0,
                     "unchanged: nothing changes");
    }
    else
    {
        verif_assert(mc.p_energy[t] == r.energy.value(), "track takes the post-interaction energy");
        if (r.action == Interaction::Action::absorbed)
            verif_assert(mc.s_status[t] == TrackStatus::killed && mc.g_dir[t][0] == dir0[0], "absorbed: killed, direction kept");
        else
            verif_assert(mc.s_status[t] == s.status[t] && mc.g_dir[t][0] == r.direction[0] && mc.g_dir[t][1] == r.direction[1] && mc.g_dir[t][2] == r.direction[2],
                         "scattered: new direction, status kept");
        // energy bookkeeping of cut secondaries: deposition' = old + interaction deposit + sum over cut secondaries (E + 2mc^2 for e+)
        real_type dep = r.energy_deposition.value();
        unsigned mat = mc.m_state[t].material_id.unchecked_get();
        for (int k = 0; k < NSEC; ++k)
        {
            if (k >= (int)ns)
                continue;
            unsigned pid = in[k].particle_id.unchecked_get();
            bool cut = mc.params.cutoffs.apply_post_interaction && in[k].energy.value() < mc.cutoffs[MC::M * pid + mat].energy.value();
            if (cut)
            {
                dep += in[k].energy.value();
                if (pid == 2)
                    dep += 2 * mc.mass[2].value();
                verif_assert(!g_secs[k], "secondary below its production cut is cleared (null particle id)");
            }
            else
                verif_assert(g_secs[k].particle_id == in[k].particle_id && g_secs[k].energy == in[k].energy && g_secs[k].direction[1] == in[k].direction[1],
                             "surviving secondary passed through unchanged");
        }
        verif_assert(mc.ph_state[t].energy_deposition == s.edep[t] + dep, "deposition += interaction deposit + energy (and 2mc^2 per positron) of cut secondaries");
        verif_assert(mc.ph_state[t].secondaries.data() == g_secs && mc.ph_state[t].secondaries.size() == ns, "step secondaries = the interaction's span");
    }
    verif_assert(mc.s_time[t] == s.time[t] && mc.s_steps[t] == s.steps[t], "time and step counter untouched");
    other_untouched(mc, s);
}
