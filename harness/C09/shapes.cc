// C09.1: each solid primitive emits signed surfaces whose intersection is exactly the solid (exact real arithmetic), and the bounding boxes it
// promises are sound.  The real IntersectRegion.cc build() methods run against a recording IntersectSurfaceBuilder: the member templates that
// IntersectSurfaceBuilder.cc would define (CSG node insertion, transforms, clipping: heap / variant code) are defined here instead and evaluate
// every emitted (sense, surface) at the probe point with the surface's own calc_sense (== sign of the surface function: C12.4).
#include "verif_celer.hh"

#include "orange/orangeinp/IntersectRegion.hh"
#include "orange/orangeinp/IntersectSurfaceBuilder.hh"
#include "orange/orangeinp/IntersectRegion.cc"
#include "orange/surf/SimpleQuadric.cc"
#include "orange/surf/ConeAligned.cc"

using namespace celeritas;
using namespace celeritas::orangeinp;
using BBox = BoundingBox<>;

namespace
{
struct Rec
{
    Real3 p;
    int surfaces = 0;
    bool all_match = true;  // every emitted signed surface contains p
    bool on_surface = false;
    bool in_all_inside_boxes = true;  // promised exterior boxes
    bool in_some_outside_box = false;  // promised interior boxes
    Tolerance<> tol;
} g;
inline bool in_box(BBox const& b, Real3 const& p)
{
    bool r = true;
    for (int k = 0; k < 3; ++k)
        r = r & (b.lower()[k] <= p[k]) & (p[k] <= b.upper()[k]);
    return r;
}
inline double num(char const* n)
{
    return verif_nondet_f64(n);
}
inline IntersectSurfaceBuilder& fake_builder()
{
    // never dereferenced: every member that would touch the object is defined below
    alignas(16) static unsigned char storage[sizeof(IntersectSurfaceBuilder)];
    return *reinterpret_cast<IntersectSurfaceBuilder*>(storage);
}
}  // namespace

namespace celeritas
{
namespace orangeinp
{
template<class S>
void IntersectSurfaceBuilder::operator()(Sense sense, S const& surf)
{
    SignedSense ss = surf.calc_sense(g.p);
    ++g.surfaces;
    g.on_surface = g.on_surface | (ss == SignedSense::on);
    bool inside = (ss == SignedSense::inside);
    g.all_match = g.all_match & (sense == Sense::inside ? inside : !inside);
}
template<class S>
void IntersectSurfaceBuilder::operator()(Sense sense, S const& surf, std::string&&)
{
    (*this)(sense, surf);
}
void IntersectSurfaceBuilder::shrink_exterior(BBox const& b)
{
    g.in_all_inside_boxes = g.in_all_inside_boxes & in_box(b, g.p);
}
void IntersectSurfaceBuilder::grow_interior(BBox const& b)
{
    g.in_some_outside_box = g.in_some_outside_box | in_box(b, g.p);
}
auto IntersectSurfaceBuilder::tol() const -> Tol const&
{
    return g.tol;
}
}  // namespace orangeinp
}  // namespace celeritas

namespace
{
inline void start()
{
    g = Rec{};
    g.p = Real3{num("p"), num("p"), num("p")};
    g.tol.rel = 1e-8;  // (Tolerance::from_default lives in a .cc; only Cone reads it, to detect equal radii)
    g.tol.abs = 1e-8;
}
//! common conclusion: emitted surfaces describe exactly `inside`; promised boxes are sound
inline void conclude(bool inside, bool inside_grown, char const* what, bool check_interior = true)
{
    verif_assume(!g.on_surface);
    verif_reach(what);
    verif_assert(g.surfaces > 0, "at least one surface emitted");
    verif_assert(g.all_match == inside, "the intersection of the emitted signed surfaces is exactly the solid");
    verif_assert(!inside | g.in_all_inside_boxes, "every promised exterior box contains the solid");
    // interior boxes are inscribed (their corners lie ON the surface up to the rounding of sqrt(1/2), sqrt(1/3)): compare with the solid grown by 1e-8
    if (check_interior)
        verif_assert(!g.in_some_outside_box | inside_grown, "every promised interior box is inside the solid (grown by a relative 1e-8)");
}
}  // namespace

VERIF_OBLIGATION(obl_c09_shape_box)
{
    start();
    Real3 hw{num("halfwidth"), num("halfwidth"), num("halfwidth")};
    verif_assume((hw[0] > 0) & (hw[1] > 0) & (hw[2] > 0));
    Box s{hw};
    s.build(fake_builder());
    bool inside = true;
    for (int k = 0; k < 3; ++k)
        inside = inside & (g.p[k] > -hw[k]) & (g.p[k] < hw[k]);
    conclude(inside, inside, "box");
}

VERIF_OBLIGATION(obl_c09_shape_sphere)
{
    start();
    double r = num("radius");
    verif_assume(r > 0);
    orangeinp::Sphere s{r};
    s.build(fake_builder());
    double d2 = g.p[0] * g.p[0] + g.p[1] * g.p[1] + g.p[2] * g.p[2];
    conclude(d2 < r * r, d2 < r * r * (1 + 1e-8), "sphere");
}

VERIF_OBLIGATION(obl_c09_shape_cylinder)
{
    start();
    double r = num("radius"), hh = num("halfheight");
    verif_assume((r > 0) & (hh > 0));
    Cylinder s{r, hh};
    s.build(fake_builder());
    double d2 = g.p[0] * g.p[0] + g.p[1] * g.p[1];
    conclude((d2 < r * r) & (g.p[2] > -hh) & (g.p[2] < hh), (d2 < r * r * (1 + 1e-8)) & (g.p[2] >= -hh) & (g.p[2] <= hh), "cylinder");
}

VERIF_OBLIGATION(obl_c09_shape_ellipsoid)
{
    start();
    Real3 r{num("radius"), num("radius"), num("radius")};
    verif_assume((r[0] > 0) & (r[1] > 0) & (r[2] > 0));
    Ellipsoid s{r};
    s.build(fake_builder());
    double q = 0;
    for (int k = 0; k < 3; ++k)
        q += (g.p[k] / r[k]) * (g.p[k] / r[k]);
    conclude(q < 1, q < 1 + 1e-8, "ellipsoid");
}

VERIF_OBLIGATION(obl_c09_shape_cone)
{
    start();
    double lo = num("radius_lo"), hi = num("radius_hi"), hh = num("halfheight");
    verif_assume((lo >= 0) & (hi >= 0) & (hh > 0));
    // (nearly) equal radii build a cylinder of the mean radius: a deliberate approximation within the construction tolerance, outside this obligation
    verif_assume((lo - hi > 1e-3 * (lo + hi + 1)) | (hi - lo > 1e-3 * (lo + hi + 1)));  // SoftEqual has a relative and an absolute threshold
    Cone s{Real2{lo, hi}, hh};
    s.build(fake_builder());
    double rz = lo + (hi - lo) * (g.p[2] + hh) / (2 * hh);
    double d2 = g.p[0] * g.p[0] + g.p[1] * g.p[1];
    conclude((g.p[2] > -hh) & (g.p[2] < hh) & (rz > 0) & (d2 < rz * rz), (g.p[2] >= -hh) & (g.p[2] <= hh) & (rz >= 0) & (d2 <= rz * rz * (1 + 1e-8)), "cone",
#ifdef VERIF_CONE_INTERIOR
             true
#else
             false  // the inscribed-box clause of the cone is a hard nonlinear query: thorough tier only
#endif
    );
}

#ifdef VERIF_PARA
//! cut for celeritas::detail::sincospi_impl (range-reduced polynomials): any point of the unit circle, recorded in call order
static double g_sin[3], g_cos[3];
static int g_trig_calls = 0;
extern "C" void stub_sincospi(double a, double* s, double* c)
{
    double sv = num("sinpi"), cv = num("cospi");
    verif_assume(verif_approx_eq(sv * sv + cv * cv, 1.0, 1.0));
    if (g_trig_calls < 3)
    {
        g_sin[g_trig_calls] = sv;
        g_cos[g_trig_calls] = cv;
    }
    ++g_trig_calls;
    *s = sv;
    *c = cv;
}

// Parallelepiped as documented (and as converted from G4Para): half-lengths of the PROJECTIONS of the edges on x, y, z; alpha = angle of the y edge
// from the y axis, (theta, phi) = direction of the axis joining the centres of the z faces:
//   |z| < dz,  |y - z tan(theta) sin(phi)| < dy,  |x - z tan(theta) cos(phi) - (y - z tan(theta) sin(phi)) tan(alpha)| < dx
VERIF_OBLIGATION(obl_c09_shape_parallelepiped)
{
    start();
    g_trig_calls = 0;
    Real3 h{num("half_projection"), num("half_projection"), num("half_projection")};
    verif_assume((h[0] > 0) & (h[1] > 0) & (h[2] > 0));
    // the angle VALUES only enter through sincos (cut): any valid angles
    Parallelepiped s{h, Turn{0.1}, Turn{0.1}, Turn{0.1}};
    s.build(fake_builder());
    verif_assume(g_trig_calls == 3);
    double sth = g_sin[0], cth = g_cos[0], sph = g_sin[1], cph = g_cos[1], sal = g_sin[2], cal = g_cos[2];
    // theta in [0, 1/4), alpha in (-1/4, 1/4): positive cosines, non-negative sin(theta)
    verif_assume((cth > 0) & (sth >= 0) & (cal > 0));
    double tth = sth / cth, tal = sal / cal;
    double yt = g.p[1] - g.p[2] * tth * sph;
    double xt = g.p[0] - g.p[2] * tth * cph - yt * tal;
    bool inside = (g.p[2] > -h[2]) & (g.p[2] < h[2]) & (yt > -h[1]) & (yt < h[1]) & (xt > -h[0]) & (xt < h[0]);
    verif_assume(!g.on_surface);
    verif_reach("parallelepiped");
    verif_assert(g.surfaces == 6, "six planes emitted");
#if VERIF_PARA == 1
    // known finding F10: for alpha != 0 the y edge is built as dy (sin alpha, cos alpha, 0), i.e. the y extent is dy cos(alpha) instead of dy
    verif_assume(!verif_known_region("F10", sal != 0));
    verif_assert(g.all_match == inside, "the intersection of the emitted signed surfaces is exactly the solid");
#else
    // bounding-box clause decided for alpha == 0 (where the surfaces are right)
    verif_assume(sal == 0);
    // known finding F11: the promised bounding box is +-(a + b + c) with c = dz (sin th cos ph, sin th sin ph, cos th): it ends at dz cos(theta)
    // although the z faces are at +-dz, and its x / y half-widths lose |.| (negative for phi in the other half planes)
    verif_assume(!verif_known_region("F11", sth != 0));
    verif_assert(!inside | g.in_all_inside_boxes, "every promised exterior box contains the solid");
#endif
}
#endif
