// C09.3 / C09.4: BoundingBox utilities and BoundingZone algebra are SOUND w.r.t. point-set semantics (IEEE doubles incl.
// infinite and null boxes).  A zone describes a region R:  not negated: interior ⊆ R ⊆ exterior;  negated: interior ∩ R = ∅ and
// complement(exterior) ⊆ R.
#include "verif_celer.hh"

#include "geocel/BoundingBox.hh"
#include "orange/BoundingBoxUtils.hh"
#include "orange/orangeinp/detail/BoundingZone.hh"
#include "orange/orangeinp/detail/BoundingZone.cc"

using namespace celeritas;
using celeritas::orangeinp::detail::BoundingZone;
using BBox = BoundingBox<>;

namespace
{
inline double val(char const* n)
{
    double d = verif_nondet_f64(n);
    verif_assume(d == d);
    return d;
}
//! arbitrary valid box: null, or lo <= hi on every axis (infinite bounds allowed)
inline BBox any_box(char const* n)
{
    if (verif_nondet_bool("null_box"))
        return BBox{};
    // every bound is an arbitrary finite value or infinite (half-spaces, slabs and all of space are what the builder starts from)
    constexpr double inf = std::numeric_limits<double>::infinity();
    Real3 lo, hi;
    for (int k = 0; k < 3; ++k)
    {
        double l = val(n), h = val(n);
        bool l_inf = verif_nondet_bool("lower_infinite"), h_inf = verif_nondet_bool("upper_infinite");
        lo[k] = l_inf ? -inf : l;
        hi[k] = h_inf ? inf : h;
    }
    verif_assume((lo[0] <= hi[0]) & (lo[1] <= hi[1]) & (lo[2] <= hi[2]));
    return BBox::from_unchecked(lo, hi);
}
//! branch-free oracle-side membership (null boxes contain nothing); keeps both engines on few paths
inline bool nonnull(BBox const& b)
{
    return (b.lower()[0] <= b.upper()[0]) & (b.lower()[1] <= b.upper()[1]) & (b.lower()[2] <= b.upper()[2]);
}
inline bool inside(BBox const& b, Real3 const& p)
{
    auto const& lo = b.lower();
    auto const& hi = b.upper();
    return nonnull(b) & (lo[0] <= p[0]) & (p[0] <= hi[0]) & (lo[1] <= p[1]) & (p[1] <= hi[1]) & (lo[2] <= p[2]) & (p[2] <= hi[2]);
}
inline bool valid_zone(BoundingZone const& z)
{
    bool enc = nonnull(z.exterior);
    for (int k = 0; k < 3; ++k)
        enc = enc & (z.exterior.lower()[k] <= z.interior.lower()[k]) & (z.interior.upper()[k] <= z.exterior.upper()[k]);
    return !nonnull(z.interior) | enc;
}
inline BoundingZone any_zone(char const* n)
{
    BoundingZone z;
    z.interior = any_box(n);
    z.exterior = any_box(n);
    z.negated = verif_nondet_bool("negated");
    // representation invariant: the interior box is enclosed by the exterior box
    verif_assume(valid_zone(z));
    return z;
}
//! documented: the behaviour exactly ON a box face does not matter (boundaries are bumped before use): keep p off every face
inline void off_faces(BBox const& b, Real3 const& p)
{
    bool off = true;
    for (int k = 0; k < 3; ++k)
        off = off & (p[k] != b.lower()[k]) & (p[k] != b.upper()[k]);
    verif_assume(!nonnull(b) | off);
}
inline void off_faces(BoundingZone const& z, Real3 const& p)
{
    off_faces(z.interior, p);
    off_faces(z.exterior, p);
}
//! is the truth value `in_region` at point p consistent with what the zone knows?
inline bool consistent(BoundingZone const& z, Real3 const& p, bool in_region)
{
    bool pos = (!inside(z.interior, p) | in_region) & (!in_region | inside(z.exterior, p));
    bool neg = (!inside(z.interior, p) | !in_region) & (inside(z.exterior, p) | in_region);
    return z.negated ? neg : pos;
}
}  // namespace

VERIF_OBLIGATION(obl_c09_bbox_ops)
{
    BBox a = any_box("a"), b = any_box("b");
    Real3 p{val("p"), val("p"), val("p")};
    BBox u = calc_union(a, b), i = calc_intersection(a, b);
    verif_reach("bbox");
    verif_assert(!(inside(a, p) || inside(b, p)) || inside(u, p), "union contains every point of either box");
    verif_assert(inside(i, p) == (inside(a, p) && inside(b, p)), "intersection contains exactly the common points");
    bool on_face = false;
    for (int k = 0; k < 3; ++k)
        on_face = on_face | (p[k] == a.lower()[k]) | (p[k] == a.upper()[k]);
    if (a && !on_face)
        verif_assert(is_inside(a, p) == inside(a, p), "is_inside is the closed/open box membership (faces aside)");
    if (a && b && encloses(a, b))
        verif_assert(!inside(b, p) || inside(a, p), "encloses(big, small): every point of small is in big");
}

VERIF_OBLIGATION(obl_c09_zone_intersection)
{
    BoundingZone a = any_zone("a"), b = any_zone("b");
    Real3 p{val("p"), val("p"), val("p")};
    bool in_a = verif_nondet_bool("in_a"), in_b = verif_nondet_bool("in_b");
    off_faces(a, p);
    off_faces(b, p);
#ifdef VERIF_NEG_A
    // one obligation per negation case (the nondeterministic flags are overridden)
    a.negated = VERIF_NEG_A;
    b.negated = VERIF_NEG_B;
#endif
    verif_assume(consistent(a, p, in_a) & consistent(b, p, in_b));
    BoundingZone z = calc_intersection(a, b);
#ifdef VERIF_DEBUG_OBS
    for (auto const* zz : {&a, &b, &z})
    {
        verif_observe_u64(zz->negated);
        for (auto const* bx : {&zz->interior, &zz->exterior})
        {
            verif_observe_u64(static_cast<bool>(*bx));
            for (int k = 0; k < 3; ++k)
            {
                verif_observe_f64(bx->lower()[k]);
                verif_observe_f64(bx->upper()[k]);
            }
        }
    }
    for (int k = 0; k < 3; ++k)
        verif_observe_f64(p[k]);
    verif_observe_u64(in_a * 2 + in_b);
#endif
    verif_reach("zone_intersection");
    verif_assert(consistent(z, p, in_a & in_b), "zone of (A and B) is sound: interior => inside, inside => exterior (negation-aware)");
    verif_assert(valid_zone(z), "zone of (A and B) keeps interior enclosed by exterior");
}

VERIF_OBLIGATION(obl_c09_zone_union)
{
    BoundingZone a = any_zone("a"), b = any_zone("b");
    Real3 p{val("p"), val("p"), val("p")};
    bool in_a = verif_nondet_bool("in_a"), in_b = verif_nondet_bool("in_b");
    off_faces(a, p);
    off_faces(b, p);
#ifdef VERIF_NEG_A
    // one obligation per negation case (the nondeterministic flags are overridden)
    a.negated = VERIF_NEG_A;
    b.negated = VERIF_NEG_B;
#endif
    verif_assume(consistent(a, p, in_a) & consistent(b, p, in_b));
    // known finding F5: the mixed-negation branches of calc_union(BoundingZone) are swapped w.r.t. the documented table
    verif_assume(!verif_known_region("F5", a.negated != b.negated));
    BoundingZone z = calc_union(a, b);
#ifdef VERIF_DEBUG_OBS
    for (auto const* zz : {&a, &b, &z})
    {
        verif_observe_u64(zz->negated);
        for (auto const* bx : {&zz->interior, &zz->exterior})
        {
            verif_observe_u64(static_cast<bool>(*bx));
            for (int k = 0; k < 3; ++k)
            {
                verif_observe_f64(bx->lower()[k]);
                verif_observe_f64(bx->upper()[k]);
            }
        }
    }
    for (int k = 0; k < 3; ++k)
        verif_observe_f64(p[k]);
    verif_observe_u64(in_a * 2 + in_b);
#endif
    verif_reach("zone_union");
    verif_assert(consistent(z, p, in_a | in_b), "zone of (A or B) is sound");
    verif_assert(valid_zone(z), "zone of (A or B) keeps interior enclosed by exterior");
}

VERIF_OBLIGATION(obl_c09_zone_negate_exterior)
{
    BoundingZone a = any_zone("a");
    Real3 p{val("p"), val("p"), val("p")};
    bool in_a = verif_nondet_bool("in_a");
    verif_assume(consistent(a, p, in_a));
    BBox ext = get_exterior_bbox(a);
    BoundingZone n = a;
    n.negate();
    verif_reach("zone_negate");
    verif_assert(!in_a || inside(ext, p), "get_exterior_bbox contains the region");
    verif_assert(consistent(n, p, !in_a), "negate() describes the complement");
}

// C09.3b: the axis-aligned box of a transformed box contains the image of every point of the box (finite boxes; any matrix: convexity only)
#include "orange/BoundingBoxUtils.cc"
#include "orange/transform/Transformation.hh"
VERIF_OBLIGATION(obl_c09_bbox_transform)
{
    Real3 lo{val("lo"), val("lo"), val("lo")}, hi{val("hi"), val("hi"), val("hi")};
    verif_assume((lo[0] <= hi[0]) & (lo[1] <= hi[1]) & (lo[2] <= hi[2]));
    BBox a = BBox::from_unchecked(lo, hi);
    double m[12];
    for (int i = 0; i < 12; ++i)
        m[i] = val("xform");
    Transformation tr(Span<real_type const, 12>(m, 12));
    Real3 p{val("p"), val("p"), val("p")};
    verif_assume(inside(a, p));
    BBox b = calc_transform(tr, a);
    Real3 q = tr.transform_up(p);
    verif_reach("bbox_transform");
    verif_assert(inside(b, q), "the transformed box contains the image of every point of the box");
}
