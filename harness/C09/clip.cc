// C09.5: SurfaceClipper / NegatedSurfaceClipper keep bounding boxes SOUND (exact real arithmetic): after clipping to the inside of a surface
// every point of the interior box is inside the surface (and was in the old interior box), and every point of the old exterior box that is
// inside the surface is still in the exterior box.  The oracle for "inside" is the surface's own calc_sense (== sign of the surface function: C12.4).
#include "verif_celer.hh"

#include "geocel/BoundingBox.hh"
#include "orange/BoundingBoxUtils.hh"
#include "orange/orangeinp/detail/BoundingZone.hh"
#include "orange/surf/SurfaceClipper.hh"
#include "orange/surf/VariantSurface.hh"
#include "orange/orangeinp/detail/NegatedSurfaceClipper.hh"
#include "orange/surf/SurfaceClipper.cc"
#include "orange/surf/CylAligned.cc"

using namespace celeritas;
using celeritas::orangeinp::detail::BoundingZone;
using BBox = BoundingBox<>;

namespace
{
inline double val(char const* n)
{
    double d = verif_nondet_f64(n);
    verif_assume(d == d);
    return d;
}
//! arbitrary non-null box: either all of space (the builder's starting point) or finite bounds
inline BBox any_box(char const* n)
{
    if (verif_nondet_bool("infinite_box"))
        return BBox::from_infinite();
    Real3 lo{val(n), val(n), val(n)}, hi{val(n), val(n), val(n)};
    verif_assume((lo[0] <= hi[0]) & (lo[1] <= hi[1]) & (lo[2] <= hi[2]));
    return BBox::from_unchecked(lo, hi);
}
//! branch-free oracle-side point membership (keeps the symbolic executor on one path)
inline bool inside(BBox const& b, Real3 const& p)
{
    auto const& lo = b.lower();
    auto const& hi = b.upper();
    return (lo[0] <= hi[0]) & (lo[1] <= hi[1]) & (lo[2] <= hi[2]) & (lo[0] <= p[0]) & (p[0] <= hi[0]) & (lo[1] <= p[1]) & (p[1] <= hi[1])
           & (lo[2] <= p[2]) & (p[2] <= hi[2]);
}
inline bool box_in_box(BBox const& small, BBox const& big)
{
    bool r = true;
    for (int k = 0; k < 3; ++k)
        r = r & (big.lower()[k] <= small.lower()[k]) & (small.upper()[k] <= big.upper()[k]);
    return r;
}
struct Boxes
{
    BBox in0, ex0, in, ex;
    Real3 p;
};
inline Boxes setup()
{
    Boxes b;
    b.in0 = any_box("interior");
    b.ex0 = any_box("exterior");
    verif_assume(box_in_box(b.in0, b.ex0));
    b.in = b.in0;
    b.ex = b.ex0;
    b.p = Real3{val("p"), val("p"), val("p")};
    return b;
}
//! the point is outside the surface AND farther from it than a relative 1e-8 of the radius: the property only speaks about points
//! farther than the construction tolerance from every surface (the inscribed-square corner lies ON the cylinder up to the rounding of sqrt(2)/2)
template<Axis T>
inline bool clearly_outside(PlaneAligned<T> const& s, Real3 const& p)
{
    return s.calc_sense(p) == SignedSense::outside;
}
template<Axis T>
inline bool clearly_outside(CylAligned<T> const& s, Real3 const& p)
{
    auto o = s.calc_origin();
    double d2 = 0;
    for (int k = 0; k < 3; ++k)
        if (k != to_int(T))
            d2 += (p[k] - o[k]) * (p[k] - o[k]);
    return d2 > s.radius_sq() * (1 + 1e-8) * (1 + 1e-8);
}
inline bool clearly_outside(Sphere const& s, Real3 const& p)
{
    double d2 = 0;
    for (int k = 0; k < 3; ++k)
        d2 += (p[k] - s.origin()[k]) * (p[k] - s.origin()[k]);
    return d2 > s.radius_sq() * (1 + 1e-8) * (1 + 1e-8);
}
template<class S>
inline void check(Boxes const& b, S const& s, bool known_int = false)
{
    SignedSense ss = s.calc_sense(b.p);
    verif_assume(ss != SignedSense::on);
    bool in_surf = (ss == SignedSense::inside);
    verif_reach("clipped");
    if (!known_int)
        verif_assert(!inside(b.in, b.p) | !clearly_outside(s, b.p), "no point of the clipped interior box is outside the surface (beyond 1e-8 r)");
    verif_assert(!inside(b.in, b.p) | inside(b.in0, b.p), "the clipped interior box is inside the previous interior box");
    verif_assert(!(inside(b.ex0, b.p) & in_surf) | inside(b.ex, b.p), "the clipped exterior box keeps every point of the old exterior box that is inside the surface");
    verif_assert(!inside(b.in, b.p) | inside(b.ex, b.p), "interior stays enclosed by exterior");
}
}  // namespace

#define CLIP_AXES(NAME, MAKE)                                   \
    VERIF_OBLIGATION(obl_c09_clip_##NAME##_x) { Boxes b = setup(); auto s = MAKE(Axis::x)(); SurfaceClipper{&b.in, &b.ex}(s); check(b, s); } \
    VERIF_OBLIGATION(obl_c09_clip_##NAME##_y) { Boxes b = setup(); auto s = MAKE(Axis::y)(); SurfaceClipper{&b.in, &b.ex}(s); check(b, s); } \
    VERIF_OBLIGATION(obl_c09_clip_##NAME##_z) { Boxes b = setup(); auto s = MAKE(Axis::z)(); SurfaceClipper{&b.in, &b.ex}(s); check(b, s); }

template<Axis T>
inline PlaneAligned<T> make_plane()
{
    return PlaneAligned<T>{val("position")};
}
template<Axis T>
inline CylAligned<T> make_cyl()
{
    double r = val("radius");
    verif_assume(r > 0);
    return CylAligned<T>{Real3{val("origin"), val("origin"), val("origin")}, r};
}
#define MAKE_PLANE(AX) make_plane<AX>
#define MAKE_CYL(AX) make_cyl<AX>
CLIP_AXES(plane, MAKE_PLANE)
CLIP_AXES(cyl, MAKE_CYL)

VERIF_OBLIGATION(obl_c09_clip_sphere)
{
    Boxes b = setup();
    double r = val("radius");
    verif_assume(r > 0);
    Sphere s{Real3{val("origin"), val("origin"), val("origin")}, r};
    SurfaceClipper{&b.in, &b.ex}(s);
    check(b, s, /* known_int = */ true);
    // interior clause separately: known finding F6 (interior half-width sqrt(3)/2 r instead of r/sqrt(3): the box corners are outside the sphere)
    bool in_surf = !clearly_outside(s, b.p);
    bool in_f6_box = true;
    for (int k = 0; k < 3; ++k)
    {
        double d = b.p[k] - s.origin()[k];
        in_f6_box = in_f6_box & (d <= (constants::sqrt_three / 2) * r) & (-d <= (constants::sqrt_three / 2) * r);
    }
    verif_assume(!verif_known_region("F6", !in_surf & in_f6_box));
    verif_assert(!inside(b.in, b.p) | in_surf, "every point of the clipped interior box is inside the sphere");
}

VERIF_OBLIGATION(obl_c09_clip_resets)
{
    // surfaces for which nothing can be guaranteed inside: the interior box must be reset (null), the exterior untouched
    Boxes b = setup();
    unsigned which = verif_nondet_u32("which");
    verif_assume(which < 3);
    SurfaceClipper clip{&b.in, &b.ex};
    if (which == 0)
    {
        Real3 n{val("n"), val("n"), val("n")};
        verif_assume(verif_approx_eq(n[0] * n[0] + n[1] * n[1] + n[2] * n[2], 1, 1));
        clip(Plane{n, val("d")});
    }
    else if (which == 1)
    {
        double t = val("tangent");
        verif_assume(t > 0);
        clip(ConeAligned<Axis::z>{Real3{val("origin"), val("origin"), val("origin")}, t});
    }
    else
    {
        clip(SimpleQuadric{Real3{val("a"), val("a"), val("a")}, Real3{val("b"), val("b"), val("b")}, val("c")});
    }
    verif_reach("reset");
    verif_assert(!inside(b.in, b.p), "interior box reset to null for non-convex / unbounded surfaces");
    verif_assert(inside(b.ex, b.p) == inside(b.ex0, b.p), "exterior box unchanged");
}

VERIF_OBLIGATION(obl_c09_negclip_plane)
{
    // negated axis-aligned plane: the region is the OUTSIDE (positive side) of the plane
    BoundingZone z;
    Boxes b = setup();
    z.interior = b.in0;
    z.exterior = b.ex0;
    z.negated = false;
    unsigned ax = verif_nondet_u32("axis");
    verif_assume(ax < 3);
    double pos = val("position");
    orangeinp::detail::NegatedSurfaceClipper clip{&z};
    bool outside;
    if (ax == 0)
    {
        PlaneAligned<Axis::x> s{pos};
        clip(s);
        verif_assume(s.calc_sense(b.p) != SignedSense::on);
        outside = s.calc_sense(b.p) == SignedSense::outside;
    }
    else if (ax == 1)
    {
        PlaneAligned<Axis::y> s{pos};
        clip(s);
        verif_assume(s.calc_sense(b.p) != SignedSense::on);
        outside = s.calc_sense(b.p) == SignedSense::outside;
    }
    else
    {
        PlaneAligned<Axis::z> s{pos};
        clip(s);
        verif_assume(s.calc_sense(b.p) != SignedSense::on);
        outside = s.calc_sense(b.p) == SignedSense::outside;
    }
    verif_reach("negclip");
    verif_assert(!inside(z.interior, b.p) | (outside & inside(b.in0, b.p)), "negated plane: interior points are on the positive side");
    verif_assert(!(inside(b.ex0, b.p) & outside) | inside(z.exterior, b.p), "negated plane: exterior keeps every old point on the positive side");
}

VERIF_OBLIGATION(obl_c09_negclip_other)
{
    BoundingZone z;
    Boxes b = setup();
    z.interior = b.in0;
    z.exterior = b.ex0;
    z.negated = false;
    double r = val("radius");
    verif_assume(r > 0);
    Sphere s{Real3{val("origin"), val("origin"), val("origin")}, r};
    orangeinp::detail::NegatedSurfaceClipper clip{&z};
    clip(s);
    verif_reach("negclip_other");
    verif_assert(!inside(z.interior, b.p), "negated curved surface: interior invalidated");
    verif_assert(inside(z.exterior, b.p) == inside(b.ex0, b.p), "negated curved surface: exterior unchanged");
}
