// C10.1: LogicEvaluator + LogicStack on arbitrary well-formed postfix programs vs a reference stack machine
#include "verif_celer.hh"

#include "orange/OrangeTypes.hh"
#include "orange/univ/detail/LogicEvaluator.hh"
#include "orange/univ/detail/LogicStack.hh"

using namespace celeritas;
using namespace celeritas::detail;

#ifndef VERIF_L
#    define VERIF_L 7
#endif
constexpr int L = VERIF_L;
constexpr int F = 4;

VERIF_OBLIGATION(obl_c10_postfix)
{
    logic_int prog[L];
    Sense senses[F];
    for (int i = 0; i < F; ++i)
        senses[i] = verif_nondet_bool("sense") ? Sense::outside : Sense::inside;
    unsigned n = verif_nondet_u32("len");
    verif_assume(n >= 1 && n <= (unsigned)L);
    // reference semantics: explicit bool stack; also decides well-formedness
    bool ref[L + 1];
    int depth = 0;
    bool ok = true;
    for (int i = 0; i < L; ++i)
    {
        unsigned kind = verif_nondet_u32("tok");
        verif_assume(kind < F + 4);
        logic_int t = kind < (unsigned)F ? logic_int(kind)
                                        : (kind == F ? logic_int(logic::ltrue) : kind == F + 1 ? logic_int(logic::lor) : kind == F + 2 ? logic_int(logic::land) : logic_int(logic::lnot));
        prog[i] = t;
        if ((unsigned)i >= n)
            continue;
        if (kind < (unsigned)F)
            ref[depth++] = (senses[kind] == Sense::outside);
        else if (kind == F)
            ref[depth++] = true;
        else if (kind == F + 3)
        {
            ok = ok && depth >= 1;
            if (depth >= 1)
                ref[depth - 1] = !ref[depth - 1];
        }
        else
        {
            ok = ok && depth >= 2;
            if (depth >= 2)
            {
                bool b = ref[--depth];
                ref[depth - 1] = (kind == F + 1) ? (ref[depth - 1] || b) : (ref[depth - 1] && b);
            }
        }
    }
    verif_assume(ok && depth == 1);  // well-formed postfix expression
    LogicEvaluator eval(Span<logic_int const>(prog, n));
    bool r = eval(Span<Sense const>(senses, F));
    verif_reach("postfix");
    verif_assert(r == ref[0], "LogicEvaluator == reference postfix semantics");
}

// LogicStack laws from an arbitrary stack state
VERIF_OBLIGATION(obl_c10_stack_laws)
{
    LogicStack s;
    unsigned d = verif_nondet_u32("depth");
    verif_assume(d <= 30);
    bool content[32];
    for (unsigned i = 0; i < 32; ++i)
    {
        content[i] = verif_nondet_bool("bit");
        if (i < d)
            s.push(content[i]);
    }
    verif_reach("stack");
    verif_assert(s.size() == d, "size counts pushes");
    bool a = verif_nondet_bool("a"), b = verif_nondet_bool("b");
    s.push(a);
    verif_assert(s.top() == a && s.size() == d + 1, "top(push(a)) == a");
    s.push(b);
    LogicStack t = s;
    t.apply_and();
    verif_assert(t.size() == d + 1 && t.top() == (a && b), "apply_and == boolean and of the two top entries");
    t = s;
    t.apply_or();
    verif_assert(t.size() == d + 1 && t.top() == (a || b), "apply_or == boolean or");
    t = s;
    t.apply_not();
    verif_assert(t.size() == d + 2 && t.top() == !b, "apply_not negates only the top");
    verif_assert(t.pop() == !b && t.pop() == a, "entries below the top unchanged");
    for (unsigned i = 0; i < 32; ++i)
        if (i < d)
            verif_assert(t[i] == content[i] && s[i] == content[i], "deeper entries unchanged by push/and/or/not");
    verif_assert(s.pop() == b && s.pop() == a && s.size() == d, "pop returns pushes in LIFO order");
}

//---------------------------------------------------------------------------//
// C10.2: InfixEvaluator on arbitrary well-formed explicit-infix strings vs recursive reference semantics.
// Grammar (what the infix builder emits): chain := item (OP item)* with ONE operator kind per parenthesis level;
// item := face | '~' face | true | '(' chain ')'.
#include "orange/univ/detail/InfixEvaluator.hh"

#ifndef VERIF_LI
#    define VERIF_LI 9
#endif
constexpr int LI = VERIF_LI;
constexpr int MAXD = 3;

VERIF_OBLIGATION(obl_c10_infix)
{
    logic_int prog[LI];
    bool senses[F];
    for (int i = 0; i < F; ++i)
        senses[i] = verif_nondet_bool("sense");
    unsigned n = verif_nondet_u32("len");
    verif_assume(n >= 1 && n <= (unsigned)LI);
    // reference evaluation + well-formedness in one pass
    bool acc[MAXD + 1];
    int op[MAXD + 1];  // 0 none yet, 1 and, 2 or
    bool first[MAXD + 1];
    for (int d = 0; d <= MAXD; ++d)
    {
        acc[d] = false;
        op[d] = 0;
        first[d] = true;
    }
    int depth = 0;
    bool expect_operand = true, pending_not = false, ok = true;
    for (int i = 0; i < LI; ++i)
    {
        unsigned kind = verif_nondet_u32("tok");
        verif_assume(kind < F + 6);
        logic_int t = kind < (unsigned)F ? logic_int(kind)
                      : kind == F       ? logic_int(logic::ltrue)
                      : kind == F + 1   ? logic_int(logic::lor)
                      : kind == F + 2   ? logic_int(logic::land)
                      : kind == F + 3   ? logic_int(logic::lnot)
                      : kind == F + 4   ? logic_int(logic::lopen)
                                        : logic_int(logic::lclose);
        prog[i] = t;
        if ((unsigned)i >= n || !ok)
            continue;
        bool have_val = false, val = false;
        if (kind <= (unsigned)F)
        {
            ok = ok && expect_operand && !(kind == F && pending_not);
            val = kind < (unsigned)F ? (senses[kind] != pending_not) : true;
            pending_not = false;
            have_val = true;
        }
        else if (kind == F + 3)
        {
            ok = ok && expect_operand && !pending_not;
            pending_not = true;
        }
        else if (kind == F + 4)
        {
            ok = ok && expect_operand && !pending_not && depth < MAXD;
            if (depth < MAXD)
            {
                ++depth;
                op[depth] = 0;
                first[depth] = true;
                acc[depth] = false;
            }
        }
        else if (kind == F + 5)
        {
            ok = ok && !expect_operand && depth > 0;
            if (depth > 0)
            {
                val = acc[depth];
                --depth;
                have_val = true;
            }
        }
        else
        {
            int o = (kind == F + 2) ? 1 : 2;
            ok = ok && !expect_operand && (op[depth] == 0 || op[depth] == o);
            op[depth] = o;
            expect_operand = true;
        }
        if (have_val)
        {
            if (first[depth])
                acc[depth] = val;
            else
                acc[depth] = (op[depth] == 1) ? (acc[depth] && val) : (acc[depth] || val);
            first[depth] = false;
            expect_operand = false;
        }
    }
    verif_assume(ok && depth == 0 && !expect_operand && !pending_not);
    InfixEvaluator eval(Span<logic_int const>(prog, n));
    bool r = eval([&senses](FaceId id) { return senses[id.unchecked_get()]; });
    verif_reach("infix");
    verif_assert(r == acc[0], "InfixEvaluator == reference semantics of the explicit infix string");
}
