// C10.1: LogicEvaluator + LogicStack on arbitrary well-formed postfix programs vs a reference stack machine
#include "verif_celer.hh"

#include "orange/OrangeTypes.hh"
#include "orange/univ/detail/LogicEvaluator.hh"
#include "orange/univ/detail/LogicStack.hh"

using namespace celeritas;
using namespace celeritas::detail;

#ifndef VERIF_L
#    define VERIF_L 7
#endif
constexpr int L = VERIF_L;
constexpr int F = 4;

VERIF_OBLIGATION(obl_c10_postfix)
{
    logic_int prog[L];
    Sense senses[F];
    for (int i = 0; i < F; ++i)
        senses[i] = verif_nondet_bool("sense") ? Sense::outside : Sense::inside;
    unsigned n = verif_nondet_u32("len");
    verif_assume(n >= 1 && n <= (unsigned)L);
    // reference semantics: explicit bool stack; also decides well-formedness
    bool ref[L + 1];
    int depth = 0;
    bool ok = true;
    for (int i = 0; i < L; ++i)
    {
        unsigned kind = verif_nondet_u32("tok");
        verif_assume(kind < F + 4);
        logic_int t = kind < (unsigned)F ? logic_int(kind)
                                        : (kind == F ? logic_int(logic::ltrue) : kind == F + 1 ? logic_int(logic::lor) : kind == F + 2 ? logic_int(logic::land) : logic_int(logic::lnot));
        prog[i] = t;
        if ((unsigned)i >= n)
            continue;
        if (kind < (unsigned)F)
            ref[depth++] = (senses[kind] == Sense::outside);
        else if (kind == F)
            ref[depth++] = true;
        else if (kind == F + 3)
        {
            ok = ok && depth >= 1;
            if (depth >= 1)
                ref[depth - 1] = !ref[depth - 1];
        }
        else
        {
            ok = ok && depth >= 2;
            if (depth >= 2)
            {
                bool b = ref[--depth];
                ref[depth - 1] = (kind == F + 1) ? (ref[depth - 1] || b) : (ref[depth - 1] && b);
            }
        }
    }
    verif_assume(ok && depth == 1);  // well-formed postfix expression
    LogicEvaluator eval(Span<logic_int const>(prog, n));
    bool r = eval(Span<Sense const>(senses, F));
    verif_reach("postfix");
    verif_assert(r == ref[0], "LogicEvaluator == reference postfix semantics");
}

// LogicStack laws from an arbitrary stack state
VERIF_OBLIGATION(obl_c10_stack_laws)
{
    LogicStack s;
    unsigned d = verif_nondet_u32("depth");
    verif_assume(d <= 30);
    bool content[32];
    for (unsigned i = 0; i < 32; ++i)
    {
        content[i] = verif_nondet_bool("bit");
        if (i < d)
            s.push(content[i]);
    }
    verif_reach("stack");
    verif_assert(s.size() == d, "size counts pushes");
    bool a = verif_nondet_bool("a"), b = verif_nondet_bool("b");
    s.push(a);
    verif_assert(s.top() == a && s.size() == d + 1, "top(push(a)) == a");
    s.push(b);
    LogicStack t = s;
    t.apply_and();
    verif_assert(t.size() == d + 1 && t.top() == (a && b), "apply_and == boolean and of the two top entries");
    t = s;
    t.apply_or();
    verif_assert(t.size() == d + 1 && t.top() == (a || b), "apply_or == boolean or");
    t = s;
    t.apply_not();
    verif_assert(t.size() == d + 2 && t.top() == !b, "apply_not negates only the top");
    verif_assert(t.pop() == !b && t.pop() == a, "entries below the top unchanged");
    for (unsigned i = 0; i < 32; ++i)
        if (i < d)
            verif_assert(t[i] == content[i] && s[i] == content[i], "deeper entries unchanged by push/and/or/not");
    verif_assert(s.pop() == b && s.pop() == a && s.size() == d, "pop returns pushes in LIFO order");
}
