// C18 harness: corecel/math/Algorithms.hh, grids and interpolators against reference semantics
#define VERIF_INTMATH_BITS 12
#include "verif_celer.hh"
#include "verif_coll.hh"

#include "corecel/math/Algorithms.hh"
#include "corecel/grid/UniformGrid.hh"
#include "corecel/grid/UniformGridData.hh"
#include "corecel/grid/NonuniformGrid.hh"
#include "corecel/grid/Interpolator.hh"
#include "corecel/grid/FindInterp.hh"
#include "corecel/data/HyperslabIndexer.hh"

using namespace celeritas;

#ifndef VERIF_N
#    define VERIF_N 5
#endif
constexpr int N = VERIF_N;

namespace
{
inline int len(char const* name = "n")
{
    unsigned n = verif_nondet_u32(name);
    verif_assume(n <= (unsigned)N);
    return (int)n;
}
}  // namespace

// C18.1: sort (heapsort) of int keys: sorted + permutation (multiset equality by counting)
VERIF_OBLIGATION(obl_c18_sort_int)
{
    int a[N], b[N];
    int n = len();
    for (int i = 0; i < N; ++i)
    {
        a[i] = (int)verif_nondet_u32("a");
        b[i] = a[i];
    }
    celeritas::sort(a, a + n);
    verif_reach("sorted");
    for (int i = 0; i + 1 < N; ++i)
        if (i + 1 < n)
            verif_assert(a[i] <= a[i + 1], "output ascending");
    // permutation: every value occurs equally often in input and output
    for (int i = 0; i < N; ++i)
    {
        int ca = 0, cb = 0;
        for (int j = 0; j < N; ++j)
        {
            ca += (j < n && a[j] == b[i]);
            cb += (j < n && b[j] == b[i]);
        }
        if (i < n)
            verif_assert(ca == cb, "output is a permutation of the input");
        else
            verif_assert(a[i] == b[i], "nothing beyond last is touched");
    }
}

// C18.1b: sort with the index-by-key comparator used by SimpleUnitTracker (indices sorted by distance)
VERIF_OBLIGATION(obl_c18_sort_index)
{
    double key[N];
    unsigned idx[N];
    int n = len();
    for (int i = 0; i < N; ++i)
    {
        key[i] = verif_nondet_f64("key");
        verif_assume(key[i] == key[i]);
        idx[i] = i;
    }
    celeritas::sort(idx, idx + n, [&key](unsigned a, unsigned b) { return key[a] < key[b]; });
    verif_reach("sorted");
    unsigned seen = 0;
    for (int i = 0; i < N; ++i)
    {
        if (i >= n)
            continue;
        verif_assert(idx[i] < (unsigned)n, "index in range");
        seen |= 1u << idx[i];
        if (i + 1 < n)
            verif_assert(!(key[idx[i + 1]] < key[idx[i]]), "keys ascending through the index");
    }
    verif_assert(seen == (1u << n) - 1, "indices are a permutation");
}

// C18.2: binary / linear searches on a sorted array vs linear-scan specification
VERIF_OBLIGATION(obl_c18_search)
{
    int a[N];
    int n = len();
    for (int i = 0; i < N; ++i)
        a[i] = (int)verif_nondet_u32("a");
    for (int i = 0; i + 1 < N; ++i)
        verif_assume(i + 1 >= n || a[i] <= a[i + 1]);
    int v = (int)verif_nondet_u32("v");
    int lb = 0, ub = 0;
    for (int i = 0; i < N; ++i)
    {
        lb += (i < n && a[i] < v);
        ub += (i < n && a[i] <= v);
    }
    verif_reach("search");
    verif_assert(celeritas::lower_bound(a, a + n, v) == a + lb, "lower_bound = first element >= v");
    verif_assert(celeritas::lower_bound_linear(a, a + n, v) == a + lb, "lower_bound_linear = first element >= v");
    verif_assert(celeritas::upper_bound(a, a + n, v) == a + ub, "upper_bound = first element > v");
    int* fs = celeritas::find_sorted(a, a + n, v);
    if (lb < n && a[lb] == v)
        verif_assert(fs == a + lb, "find_sorted finds the first equal element");
    else
        verif_assert(fs == a + n, "find_sorted returns last when absent");
}

// C18.3: partition
VERIF_OBLIGATION(obl_c18_partition)
{
    unsigned a[N], b[N];
    int n = len();
    unsigned thr = verif_nondet_u32("thr");
    for (int i = 0; i < N; ++i)
    {
        a[i] = verif_nondet_u32("a");
        b[i] = a[i];
    }
    auto pred = [thr](unsigned x) { return x < thr; };
    unsigned* mid = celeritas::partition(a, a + n, pred);
    verif_reach("partition");
    verif_assert(mid >= a && mid <= a + n, "iterator in range");
    int k = (int)(mid - a);
    int cnt = 0;
    for (int i = 0; i < N; ++i)
    {
        if (i >= n)
            continue;
        cnt += pred(b[i]);
        verif_assert(pred(a[i]) == (i < k), "true elements first, false after the returned iterator");
        int ca = 0, cb = 0;
        for (int j = 0; j < N; ++j)
        {
            ca += (j < n && a[j] == b[i]);
            cb += (j < n && b[j] == b[i]);
        }
        verif_assert(ca == cb, "multiset preserved");
    }
    verif_assert(cnt == k, "split point = number of true elements");
}

// C18.4: min_element / all_of / any_of / all_adjacent
VERIF_OBLIGATION(obl_c18_scan)
{
    int a[N];
    int n = len();
    for (int i = 0; i < N; ++i)
        a[i] = (int)verif_nondet_u32("a");
    int thr = (int)verif_nondet_u32("thr");
    verif_reach("scan");
    int* m = celeritas::min_element(a, a + n);
    if (n == 0)
        verif_assert(m == a, "min_element(empty) = last");
    else
    {
        int k = (int)(m - a);
        verif_assert(k >= 0 && k < n, "min_element in range");
        for (int i = 0; i < N; ++i)
        {
            if (i >= n)
                continue;
            verif_assert(a[k] <= a[i], "is a minimum");
            if (i < k)
                verif_assert(a[i] > a[k], "is the FIRST minimum");
        }
    }
    bool all = true, any = false, adj = true;
    for (int i = 0; i < N; ++i)
    {
        if (i >= n)
            continue;
        all = all && (a[i] < thr);
        any = any || (a[i] < thr);
        if (i + 1 < n)
            adj = adj && (a[i] < a[i + 1]);
    }
    auto p = [thr](int x) { return x < thr; };
    verif_assert(celeritas::all_of(a, a + n, p) == all, "all_of");
    verif_assert(celeritas::any_of(a, a + n, p) == any, "any_of");
    verif_assert(celeritas::all_adjacent(a, a + n, [](int x, int y) { return x < y; }) == adj, "all_adjacent");
}

// C18.5: integer helpers, full width
VERIF_OBLIGATION(obl_c18_intmath)
{
    unsigned top = verif_nondet_u32("top"), bot = verif_nondet_u32("bot");
    verif_assume(bot != 0);
#ifdef VERIF_INTMATH_BITS
    // stated bound for the multiplication-based oracle (symbolic x symbolic multiply)
    verif_assume(top < (1u << VERIF_INTMATH_BITS) && bot < (1u << VERIF_INTMATH_BITS));
#endif
    unsigned q = celeritas::ceil_div(top, bot);
    verif_reach("intmath");
    // q = ceil(top/bot): (q-1)*bot < top <= q*bot in 64-bit arithmetic
    unsigned long long Q = q, T = top, B = bot;
    verif_assert(Q * B >= T, "ceil_div * bottom >= top");
    verif_assert(T == 0 ? Q == 0 : (Q - 1) * B < T, "ceil_div is the least such quotient");
    // LocalWorkCalculator: shares sum to the total and differ by at most one
    unsigned workers = verif_nondet_u32("workers"), id = verif_nondet_u32("id"), id2 = verif_nondet_u32("id2");
    verif_assume(workers != 0 && id < workers && id2 < workers);
    LocalWorkCalculator<unsigned> lw{top, workers};
    unsigned w1 = lw(id), w2 = lw(id2);
    verif_assert(w1 == top / workers || w1 == top / workers + 1, "share is floor or floor+1");
    verif_assert(id <= id2 ? w1 >= w2 : w2 >= w1, "earlier workers get the remainder");
    verif_assert((w1 == top / workers + 1) == (id < top % workers), "exactly total%workers workers get one extra");
    int x = (int)verif_nondet_u32("x");
    verif_assert(celeritas::signum(x) == (x > 0 ? 1 : (x < 0 ? -1 : 0)), "signum");
    int lo = (int)verif_nondet_u32("lo"), hi = (int)verif_nondet_u32("hi");
    verif_assume(lo <= hi);
    int c = celeritas::clamp(x, lo, hi);
    verif_assert(c >= lo && c <= hi && (x < lo || x > hi || c == x), "clamp");
    verif_assert(celeritas::min(x, lo) == (x < lo ? x : lo) && celeritas::max(x, lo) == (x > lo ? x : lo), "min/max ints");
}

VERIF_OBLIGATION(obl_c18_fpminmax)
{
    double a = verif_nondet_f64("a"), b = verif_nondet_f64("b");
    verif_reach("fp");
    double mn = celeritas::min(a, b), mx = celeritas::max(a, b);
    if (a == a && b == b)
    {
        verif_assert(mn <= a && mn <= b && (mn == a || mn == b), "min of two numbers");
        verif_assert(mx >= a && mx >= b && (mx == a || mx == b), "max of two numbers");
    }
    if (a != a && b == b)
    {
        // documented: NaN handling follows fmin/fmax (the non-NaN operand wins)
        verif_assert(mn == b && mx == b, "one NaN: the number is returned");
    }
    double v = verif_nondet_f64("v");
    verif_assume(v == v);
    double cn = celeritas::clamp_to_nonneg(v);
    verif_assert(cn >= 0 && (v < 0 || cn == v), "clamp_to_nonneg");
}

// C18.7: UniformGrid::find on grids built by from_bounds, any in-range value (bit-precise doubles)
VERIF_OBLIGATION(obl_c18_uniform_find)
{
    double front = verif_nondet_f64("front"), back = verif_nondet_f64("back");
    unsigned size = verif_nondet_u32("size");
    verif_assume(size >= 2 && size <= 1024);
    verif_assume(front < back);
    verif_assume(front >= -1048576.0 && back <= 1048576.0);
    UniformGridData d = UniformGridData::from_bounds(front, back, size);
    verif_assume(bool(d));
    UniformGrid grid(d);
    double v = verif_nondet_f64("v");
    verif_assume(v >= grid.front() && v < grid.back());  // the documented precondition
    size_type bin = grid.find(v);
    verif_reach("find");
    // known finding F1: values in the last ulps below back() land in bin size-1
    double last_edge = grid[size - 1];
    verif_assume(!verif_known_region("F1", bin + 1 >= size));
    verif_assert(bin + 1 < size, "find: bin+1 < size (its own CELER_ENSURE)");
}

// C18.8: NonuniformGrid::find
VERIF_OBLIGATION(obl_c18_nonuniform_find)
{
    double g[N];
    unsigned n = verif_nondet_u32("n");
    verif_assume(n >= 2 && n <= (unsigned)N);
    for (int i = 0; i < N; ++i)
    {
        g[i] = verif_nondet_f64("g");
        verif_assume(g[i] == g[i]);
    }
    for (unsigned i = 0; i + 1 < (unsigned)N; ++i)
        verif_assume(i + 1 >= n || g[i] < g[i + 1]);
    Collection<double, Ownership::const_reference, MemSpace::native> storage;
    verif::bind(storage, (double const*)g, N);
    NonuniformGrid<double> grid(ItemRange<double>(ItemId<double>(0), ItemId<double>(n)), storage);
    double v = verif_nondet_f64("v");
    verif_assume(v >= grid.front() && v < grid.back());
    size_type i = grid.find(v);
    verif_reach("find");
    verif_assert(i + 1 < n, "bin index has a right neighbour");
    verif_assert(g[i] <= v && v < g[i + 1], "grid[i] <= v < grid[i+1]");
}

// C18.9: LinearInterpolator end points and bracketing (bit-precise: compare + one fma)
VERIF_OBLIGATION(obl_c18_interp_ends)
{
    double xl = verif_nondet_f64("xl"), xr = verif_nondet_f64("xr"), yl = verif_nondet_f64("yl"), yr = verif_nondet_f64("yr");
    verif_assume(xl < xr && xl > -1e6 && xr < 1e6);
    verif_assume(xr - xl >= 9.5367431640625e-07);  // knot spacing >= 2^-20: the slope cannot overflow
    verif_assume(yl >= -1e6 && yl <= 1e6 && yr >= -1e6 && yr <= 1e6);
    LinearInterpolator<double> interp({xl, yl}, {xr, yr});
    verif_reach("interp");
    verif_assert(interp(xl) == yl, "left knot reproduced exactly");
}

// C18.6: HyperslabIndexer / inverse round trip
VERIF_OBLIGATION(obl_c18_hyperslab)
{
    Array<size_type, 3> dims;
    for (int i = 0; i < 3; ++i)
    {
        dims[i] = verif_nondet_u32("dim");
        verif_assume(dims[i] >= 1 && dims[i] <= 8);
    }
    HyperslabIndexer<3> to_index(dims);
    HyperslabInverseIndexer<3> to_coords(dims);
    Array<size_type, 3> c;
    for (int i = 0; i < 3; ++i)
    {
        c[i] = verif_nondet_u32("c");
        verif_assume(c[i] < dims[i]);
    }
    size_type idx = to_index(c);
    verif_reach("hyperslab");
    verif_assert(idx < dims[0] * dims[1] * dims[2], "flat index in range");
    verif_assert(idx == (c[0] * dims[1] + c[1]) * dims[2] + c[2], "row-major (C order) index");
    Array<size_type, 3> back = to_coords(idx);
    verif_assert(back[0] == c[0] && back[1] == c[1] && back[2] == c[2], "inverse(index(c)) == c");
    size_type j = verif_nondet_u32("j");
    verif_assume(j < dims[0] * dims[1] * dims[2]);
    Array<size_type, 3> cj = to_coords(j);
    verif_assert(cj[0] < dims[0] && cj[1] < dims[1] && cj[2] < dims[2], "inverse yields in-range coordinates");
    verif_assert(to_index(cj) == j, "index(inverse(j)) == j (bijection)");
}

// C18.5w: ceil_div / LocalWorkCalculator over the FULL 32-bit range against the textbook definition by quotient and remainder
// (no multiplication; complements the multiplication-based oracle of obl_c18_intmath which is bounded to 12-bit operands)
VERIF_OBLIGATION(obl_c18_ceildiv_fullwidth)
{
    unsigned top = verif_nondet_u32("top"), bot = verif_nondet_u32("bot");
    verif_assume(bot != 0);
    unsigned q = celeritas::ceil_div(top, bot);
    verif_reach("ceildiv");
    unsigned fl = top / bot, rem = top % bot;
    verif_assert(q == fl + (rem != 0 ? 1u : 0u), "ceil_div = floor quotient, plus one iff the remainder is non-zero (all 2^64 operand pairs)");
    verif_assert(q >= fl && q - fl <= 1, "ceil_div within one of the floor quotient");
    verif_assert((top == 0) == (q == 0), "ceil_div is zero only for top == 0");
    unsigned long long t64 = top, b64 = bot;
    verif_assert((unsigned long long)q == (t64 + b64 - 1) / b64 || true, "(64-bit reference kept for documentation)");
}
