// C15: support / validity / draw count of the sampling distributions for EVERY value of the underlying uniforms.
// The RNG engine is a stub whose generate_canonical returns an arbitrary value in [0,1) (contract proven for the real
// engine in C13.8) and counts the draws.  The statistical half of the property is outside the claim.
#include "verif_celer.hh"

#include "celeritas/random/distribution/GenerateCanonical.hh"

namespace
{
struct StubRng
{
    int draws = 0;
    bool open = false;  // exclude u == 0 (log(0) corner, probability 2^-53 per draw: reported separately)
};
}  // namespace
namespace celeritas
{
template<>
class GenerateCanonical<StubRng, double>
{
  public:
    using real_type = double;
    using result_type = double;
    result_type operator()(StubRng& rng)
    {
        ++rng.draws;
        double u = verif_nondet_f64("canonical");
        verif_assume(u >= 0 && u < 1);
        if (rng.open)
            verif_assume(u > 0);
        return u;
    }
};
}  // namespace celeritas

#include "celeritas/random/distribution/UniformRealDistribution.hh"
#include "celeritas/random/distribution/ExponentialDistribution.hh"
#include "celeritas/random/distribution/ReciprocalDistribution.hh"
#include "celeritas/random/distribution/InverseSquareDistribution.hh"
#include "celeritas/random/distribution/RadialDistribution.hh"
#include "celeritas/random/distribution/BernoulliDistribution.hh"
#include "celeritas/random/distribution/IsotropicDistribution.hh"
#include "celeritas/random/distribution/UniformBoxDistribution.hh"
#include "celeritas/random/Selector.hh"
#include "celeritas/Types.hh"

using namespace celeritas;
using celeritas::Real3;

namespace
{
inline double num(char const* n)
{
    return verif_nondet_f64(n);
}
}  // namespace

VERIF_OBLIGATION(obl_c15_uniform)
{
    double a = num("a"), b = num("b");
    verif_assume(a < b && a > -1e150 && b < 1e150);
    StubRng rng;
    UniformRealDistribution<double> sample(a, b);
    double x = sample(rng);
    verif_reach("uniform");
    verif_assert(rng.draws == 1, "one draw");
    verif_assert(x >= a, "a <= x");
    // known finding F3 (IEEE only): fma(b-a, u, a) can round up to b itself when u is within 2^-53 of 1
    verif_assume(!verif_known_region("F3", x == b));
    verif_assert(x < b, "x < b");
}

VERIF_OBLIGATION(obl_c15_bernoulli)
{
    double p = num("p");
    verif_assume(p >= 0 && p <= 1);
    StubRng rng;
    BernoulliDistribution sample(p);
    bool r = sample(rng);
    verif_reach("bernoulli");
    verif_assert(rng.draws == 1, "one draw");
    verif_assert((p == 0 ? !r : true) && (p == 1 ? r : true), "never true for p=0, always true for p=1");
}

VERIF_OBLIGATION(obl_c15_exponential)
{
    double lambda = num("lambda");
    verif_assume(lambda > 0);
    StubRng rng;
    rng.open = true;
    ExponentialDistribution<double> sample(lambda);
    double x = sample(rng);
    verif_reach("exponential");
    verif_assert(rng.draws == 1, "one draw");
    verif_assert(x > 0, "x in (0, inf) for u in (0,1)");
}

VERIF_OBLIGATION(obl_c15_reciprocal)
{
    double a = num("a"), b = num("b");
    verif_assume(a > 0 && a < b);
    StubRng rng;
    ReciprocalDistribution<double> sample(a, b);
    double x = sample(rng);
    // witnesses that put exp(log(.)) terms on the path so that the inverse lemma instantiates
    double w = std::exp(std::log(b / a));
    verif_assume(verif_approx_eq(w, b / a, 1.0));
    verif_reach("reciprocal");
    verif_assert(rng.draws == 1, "one draw");
    verif_assert((x >= a || verif_close(x, a, a)) && (x <= b || verif_close(x, b, b)), "x in [a, b]");
}

VERIF_OBLIGATION(obl_c15_inverse_square)
{
    double a = num("a"), b = num("b");
    verif_assume(a > 0 && a < b);
    StubRng rng;
    InverseSquareDistribution<double> sample(a, b);
    double x = sample(rng);
    verif_reach("inverse_square");
    verif_assert(rng.draws == 1, "one draw");
    verif_assert((x >= a || verif_close(x, a, a)) && (x <= b || verif_close(x, b, b)), "x in [a, b]");
}

VERIF_OBLIGATION(obl_c15_radial)
{
    double r = num("radius");
    verif_assume(r > 0);
    StubRng rng;
    RadialDistribution<double> sample(r);
    double x = sample(rng);
    verif_reach("radial");
    verif_assert(rng.draws == 1, "one draw");
    verif_assert(x >= 0 && (x <= r || verif_close(x, r, r)), "x in [0, R]");
}

VERIF_OBLIGATION(obl_c15_isotropic)
{
    StubRng rng;
    IsotropicDistribution<double> sample;
    Real3 d = sample(rng);
    verif_reach("isotropic");
    verif_assert(rng.draws == 2, "two draws");
    verif_assert(verif_close(d[0] * d[0] + d[1] * d[1] + d[2] * d[2], 1.0, 1.0), "unit vector");
    verif_assert(d[2] >= -1 && d[2] <= 1, "polar cosine in [-1, 1]");
}

VERIF_OBLIGATION(obl_c15_box)
{
    Real3 lo{num("lo"), num("lo"), num("lo")}, hi{num("hi"), num("hi"), num("hi")};
    verif_assume(lo[0] <= hi[0] && lo[1] <= hi[1] && lo[2] <= hi[2]);
    StubRng rng;
    UniformBoxDistribution<double> sample(lo, hi);
    Real3 x = sample(rng);
    verif_reach("box");
    verif_assert(rng.draws == 3, "three draws");
    for (int i = 0; i < 3; ++i)
        verif_assert(x[i] >= lo[i] && x[i] <= hi[i], "inside the box");
}

namespace
{
template<unsigned n>
inline void selector_case()
{
    constexpr unsigned NW = 4;
    double w[NW];
    double total = 0;
    for (unsigned i = 0; i < NW; ++i)
    {
        w[i] = num("weight");
        verif_assume(w[i] >= 0);
        if (i < n)
            total += w[i];
    }
    verif_assume(total > 0);
    // the caller-provided normalisation only has to be soft-equal to the accumulated weights (constructor precondition, relative 1e-12):
    // the class promises never to iterate off the end "even for an incorrect total"
    double given = num("given_total");
    verif_assume(given > 0 && given - total <= 1e-12 * total && total - given <= 1e-12 * total);
    unsigned evals = 0;
    bool out_of_range = false;
    StubRng rng;
    auto select = make_selector(
        [&](unsigned i) {
            ++evals;
            out_of_range = out_of_range || i >= n;
            return w[i < NW ? i : 0];
        },
        n,
        given);
    unsigned k = select(rng);
    verif_reach("selector");
    verif_assert(rng.draws == 1, "one draw");
    verif_assert(k < n, "selected index is valid");
    verif_assert(w[k < NW ? k : 0] > 0 || k == n - 1, "an index is returned only if its weight is positive (or it is the last)");
    verif_assert(!out_of_range && evals < n, "the weight functor is evaluated only at valid indices, never for the last one");
}
}  // namespace

VERIF_OBLIGATION(obl_c15_selector)
{
    // one path per size, so that the loop bound is concrete on every path
    unsigned n = verif_nondet_u32("size");
    verif_assume(n >= 1 && n <= 4);
    if (n == 1)
        selector_case<1>();
    else if (n == 2)
        selector_case<2>();
    else if (n == 3)
        selector_case<3>();
    else
        selector_case<4>();
}
