// Include first in every harness TU.
//  * pulls the std headers Celeritas needs BEFORE `#define private public`
//  * replaces the *formatting* half of CELER_VALIDATE / CELER_RUNTIME_THROW (ostringstream, RuntimeError
//    construction) by a call to verif_validate_fail(): the condition is kept, the path ends at the throw.
//    (Guidance: "formatting and logging get empty bodies unless formatting is the subject".)
#pragma once
#include "verif.hh"
#include "verif_std.hh"

#include "corecel/Assert.hh"
#undef CELER_VALIDATE
#define CELER_VALIDATE(COND, MSG)      \
    do                                 \
    {                                  \
        if (CELER_UNLIKELY(!(COND)))   \
        {                              \
            ::verif_validate_fail();   \
        }                              \
    } while (0)
#undef CELER_RUNTIME_THROW
#define CELER_RUNTIME_THROW(WHICH, WHAT, COND) ::verif_validate_fail()

// logging gets an empty body (formatting is not the subject of any obligation)
#include "corecel/io/Logger.hh"
namespace verif
{
struct NullMsg
{
    template<class T>
    NullMsg& operator<<(T&&)
    {
        return *this;
    }
    NullMsg& operator<<(std::ostream& (*)(std::ostream&)) { return *this; }
};
}  // namespace verif
#undef CELER_LOG
#define CELER_LOG(LEVEL) ::verif::NullMsg {}
#undef CELER_LOG_LOCAL
#define CELER_LOG_LOCAL(LEVEL) ::verif::NullMsg {}

#define private public
#define protected public
