// Hand-laid CoreParamsData<const_reference,native> / CoreStateData<reference,native> over small fixed arrays.
// Everything a track-level kernel can read or write is backed by a symbolic array; sub-data that the harnessed
// kernels never touch stays empty (an access there is an out-of-bounds read that CBMC reports).
// Geometry: real OrangeTrackView over a single-level state (max_depth = 1, one universe, V local volumes,
// volume 0 = exterior); the expensive point location OrangeTrackView::operator=(GeoTrackInitializer) is CUT and
// replaced by stub_geo_init below (arbitrary located volume / failure flag, documented post-state).
#pragma once
#include "verif_celer.hh"
#include "verif_coll.hh"

#include "celeritas/global/CoreTrackData.hh"
#include "celeritas/global/CoreTrackView.hh"
#include "celeritas/track/CoreStateCounters.hh"

namespace verif
{
using namespace celeritas;

template<int N, int K, int S, int E>
struct MiniCore
{
    static constexpr int P = 3;  // gamma, e-, e+
    static constexpr int V = 3;  // volumes (0 = exterior)
    static constexpr int M = 2;  // materials
    static constexpr int NA = 11;  // action ids in use (0..4 core scalars, 4..7 physics, 8..9 models, 10 failure)

    CoreParamsData<Ownership::const_reference, MemSpace::native> params;
    CoreStateData<Ownership::reference, MemSpace::native> state;
    CoreStateCounters counters;

    // every backing array is its own object (static member => separate global in the IR): a symbolic-offset access
    // is then confined to that array instead of degenerating to a byte-level access over one giant struct
    // --- params backing
    static inline units::MevMass mass[P]{};
    static inline units::ElementaryCharge charge[P]{};
    static inline real_type decay[P]{};
    static inline MatterType matter[P]{};
    static inline MaterialId geo_mat[V]{};
    static inline LoopingThreshold looping[P]{};
    static inline size_type uidx_surfaces[2]{};
    static inline size_type uidx_volumes[2]{};
    static inline MaterialRecord mat_records[M]{};
    static inline ProcessGroup proc_groups[P]{};
    static inline ParticleCutoff cutoffs[P * M]{};
    static inline size_type cut_index[P]{};

    // --- state backing
    // geometry (single level)
    static inline LevelId g_level[N]{};
    static inline LevelId g_surface_level[N]{};
    static inline LocalSurfaceId g_surf[N]{};
    static inline Sense g_sense[N]{};
    static inline BoundaryResult g_boundary[N]{};
    static inline LevelId g_next_level[N]{};
    static inline real_type g_next_step[N]{};
    static inline LocalSurfaceId g_next_surf[N]{};
    static inline Sense g_next_sense[N]{};
    static inline Real3 g_pos[N]{};
    static inline Real3 g_dir[N]{};
    static inline LocalVolumeId g_vol[N]{};
    static inline UniverseId g_universe[N]{};
    // materials / particles / physics / sim
    static inline MaterialTrackState m_state[N]{};
    static inline ParticleId p_id[N]{};
    static inline real_type p_energy[N]{};
    static inline PhysicsTrackState ph_state[N]{};
    static inline MscStep ph_msc[N]{};
    static inline Secondary sec_storage[N * S + 1]{};
    static inline size_type sec_size[1]{};
    static inline TrackId s_track[N]{};
    static inline TrackId s_parent[N]{};
    static inline EventId s_event[N]{};
    static inline size_type s_steps[N]{};
    static inline size_type s_loop[N]{};
    static inline real_type s_time[N]{};
    static inline TrackStatus s_status[N]{};
    static inline real_type s_step[N]{};
    static inline ActionId s_post[N]{};
    static inline ActionId s_along[N]{};
    // init
    static inline TrackSlotId i_parents[N]{};
    static inline size_type i_indices[N]{};
    static inline size_type i_counts[N + 1]{};
    static inline TrackSlotId i_vacancies[N]{};
    static inline TrackId::size_type i_counters[E]{};
    static inline TrackInitializer i_initializers[K]{};
    static inline TrackSlotId::size_type track_slots[N]{};

    MiniCore()
    {
        params = {};
        state = {};
        counters = {};
        // params
        bind(params.particles.mass, (units::MevMass const*)mass, P);
        bind(params.particles.charge, (units::ElementaryCharge const*)charge, P);
        bind(params.particles.decay_constant, (real_type const*)decay, P);
        bind(params.particles.matter, (MatterType const*)matter, P);
        mass[0] = units::MevMass{0};
        mass[1] = mass[2] = units::MevMass{0.5109989461};
        charge[0] = units::ElementaryCharge{0};
        charge[1] = units::ElementaryCharge{-1};
        charge[2] = units::ElementaryCharge{1};
        matter[0] = matter[1] = MatterType::particle;
        matter[2] = MatterType::antiparticle;
        for (int i = 0; i < P; ++i)
            decay[i] = 0;
        bind(params.geo_mats.materials, (MaterialId const*)geo_mat, V);
        bind(params.sim.looping, (LoopingThreshold const*)looping, P);
        bind(params.materials.materials, (MaterialRecord const*)mat_records, M);
        params.geometry.scalars.max_depth = 1;
        params.geometry.scalars.max_faces = 1;
        params.geometry.scalars.max_intersections = 1;
        uidx_surfaces[0] = 0;
        uidx_surfaces[1] = 0;
        uidx_volumes[0] = 0;
        uidx_volumes[1] = V;
        bind(params.geometry.universe_indexer_data.surfaces, (size_type const*)uidx_surfaces, 2);
        bind(params.geometry.universe_indexer_data.volumes, (size_type const*)uidx_volumes, 2);
        // physics scalars: action ids msc=4 range=5 discrete=6 integral_rejection=7, models 8..9, failure=10
        params.physics.scalars.max_particle_processes = 1;
        params.physics.scalars.model_to_action = 8;
        params.physics.scalars.num_models = 2;
        params.physics.scalars.lowest_electron_energy = units::MevEnergy{0.001};
        bind(params.physics.process_groups, (ProcessGroup const*)proc_groups, P);
        bind(params.cutoffs.cutoffs, (ParticleCutoff const*)cutoffs, P * M);
        bind(params.cutoffs.id_to_index, (size_type const*)cut_index, P);
        for (int i = 0; i < P; ++i)
            cut_index[i] = i;
        params.cutoffs.num_particles = P;
        params.cutoffs.num_materials = M;
        params.cutoffs.ids.gamma = ParticleId{0};
        params.cutoffs.ids.electron = ParticleId{1};
        params.cutoffs.ids.positron = ParticleId{2};
        params.init.capacity = K;
        params.init.max_events = E;
        params.init.track_order = TrackOrder::none;
        params.scalars.boundary_action = ActionId{0};
        params.scalars.propagation_limit_action = ActionId{1};
        params.scalars.tracking_cut_action = ActionId{2};
        params.scalars.along_step_user_action = ActionId{3};
        params.scalars.along_step_neutral_action = ActionId{4};
        params.scalars.max_streams = 1;
        // state
        state.geometry.max_depth = 1;
        bind(state.geometry.level, g_level, N);
        bind(state.geometry.surface_level, g_surface_level, N);
        bind(state.geometry.surf, g_surf, N);
        bind(state.geometry.sense, g_sense, N);
        bind(state.geometry.boundary, g_boundary, N);
        bind(state.geometry.next_level, g_next_level, N);
        bind(state.geometry.next_step, g_next_step, N);
        bind(state.geometry.next_surf, g_next_surf, N);
        bind(state.geometry.next_sense, g_next_sense, N);
        bind(state.geometry.pos, g_pos, N);
        bind(state.geometry.dir, g_dir, N);
        bind(state.geometry.vol, g_vol, N);
        bind(state.geometry.universe, g_universe, N);
        bind(state.materials.state, m_state, N);
        bind(state.particles.particle_id, p_id, N);
        bind(state.particles.particle_energy, p_energy, N);
        bind(state.physics.state, ph_state, N);
        bind(state.physics.msc_step, ph_msc, N);
        bind(state.physics.secondaries.storage, sec_storage, N * S);
        bind(state.physics.secondaries.size, sec_size, 1);
        bind(state.sim.track_ids, s_track, N);
        bind(state.sim.parent_ids, s_parent, N);
        bind(state.sim.event_ids, s_event, N);
        bind(state.sim.num_steps, s_steps, N);
        bind(state.sim.num_looping_steps, s_loop, N);
        bind(state.sim.time, s_time, N);
        bind(state.sim.status, s_status, N);
        bind(state.sim.step_length, s_step, N);
        bind(state.sim.post_step_action, s_post, N);
        bind(state.sim.along_step_action, s_along, N);
        bind(state.init.parents, i_parents, N);
        bind(state.init.indices, i_indices, N);
        bind(state.init.secondary_counts, i_counts, N + 1);
        bind(state.init.vacancies, i_vacancies, N);
        bind(state.init.track_counters, i_counters, E);
        bind(state.init.initializers, i_initializers, K);
        state.stream_id = StreamId{0};
    }

    //! finite double
    static double fin(char const* n)
    {
        double d = verif_nondet_f64(n);
        verif_assume(d == d && d > -1e300 && d < 1e300);
        return d;
    }
    static double nonneg(char const* n)
    {
        double d = verif_nondet_f64(n);
        verif_assume(d >= 0 && d < 1e300);
        return d;
    }

    //! arbitrary contents for one slot's sim/particle/material/geometry state (any status)
    void symbolic_slot(int i)
    {
        unsigned st = verif_nondet_u32("status");
        verif_assume(st < 5);
        s_status[i] = static_cast<TrackStatus>(st);
        s_track[i] = TrackId{verif_nondet_u32("track_id")};
        s_parent[i] = TrackId{verif_nondet_u32("parent_id")};
        unsigned ev = verif_nondet_u32("event");
        verif_assume(ev < (unsigned)E);
        s_event[i] = EventId{ev};
        s_steps[i] = verif_nondet_u32("num_steps");
        s_loop[i] = verif_nondet_u32("num_looping");
        s_time[i] = nonneg("time");
        s_step[i] = nonneg("step_length");
        unsigned pa = verif_nondet_u32("post_action"), aa = verif_nondet_u32("along_action");
        verif_assume(pa <= (unsigned)NA && aa <= (unsigned)NA);
        s_post[i] = pa < (unsigned)NA ? ActionId{pa} : ActionId{};
        s_along[i] = aa < (unsigned)NA ? ActionId{aa} : ActionId{};
        unsigned pid = verif_nondet_u32("particle");
        verif_assume(pid < (unsigned)P);
        p_id[i] = ParticleId{pid};
        p_energy[i] = nonneg("energy");
        unsigned mid = verif_nondet_u32("material");
        verif_assume(mid < (unsigned)M);
        m_state[i].material_id = MaterialId{mid};
        // geometry: single level, inside some non-exterior volume, not on a boundary unless said
        g_level[i] = LevelId{0};
        g_surface_level[i] = LevelId{};
        g_surf[i] = LocalSurfaceId{};
        g_sense[i] = Sense::inside;
        g_boundary[i] = BoundaryResult::exiting;
        g_next_level[i] = LevelId{};
        g_next_step[i] = 0;
        g_next_surf[i] = LocalSurfaceId{};
        g_next_sense[i] = Sense::inside;
        for (int k = 0; k < 3; ++k)
        {
            g_pos[i][k] = fin("pos");
            g_dir[i][k] = fin("dir");
        }
        unsigned vol = verif_nondet_u32("vol");
        verif_assume(vol < (unsigned)V);
        g_vol[i] = LocalVolumeId{vol};
        g_universe[i] = UniverseId{0};
        // physics
        ph_state[i].interaction_mfp = nonneg("mfp");
        ph_state[i].macro_xs = nonneg("xs");
        ph_state[i].energy_deposition = nonneg("edep");
        ph_state[i].dedx_range = nonneg("range");
        ph_state[i].msc_range = {};
        ph_state[i].element = {};
        ph_state[i].secondaries = {};
    }

    //! arbitrary secondaries span (<= S entries, any subset valid) for slot i, carved from the slot's own block
    void symbolic_secondaries(int i)
    {
        unsigned ns = verif_nondet_u32("nsec");
        verif_assume(ns <= (unsigned)S);
        for (int k = 0; k < S; ++k)
        {
            Secondary& s = sec_storage[i * S + k];
            unsigned pid = verif_nondet_u32("sec_particle");
            verif_assume(pid <= (unsigned)P);
            s.particle_id = pid < (unsigned)P ? ParticleId{pid} : ParticleId{};
            double e = verif_nondet_f64("sec_energy");
            verif_assume(e > 0 && e < 1e300);
            s.energy = units::MevEnergy{e};
            for (int d = 0; d < 3; ++d)
                s.direction[d] = fin("sec_dir");
        }
        ph_state[i].secondaries = Span<Secondary>(sec_storage + i * S, ns);
    }

    CoreTrackView track(int i) { return CoreTrackView(params, state, TrackSlotId(i)); }
};

//! valid pointers for executor members
template<class MC>
inline auto params_ptr(MC& mc)
{
    return CRefPtr<CoreParamsData, MemSpace::native>{&mc.params};
}
template<class MC>
inline auto state_ptr(MC& mc)
{
    return RefPtr<CoreStateData, MemSpace::native>{&mc.state};
}
}  // namespace verif

// Replacement for the CUT OrangeTrackView::operator=(GeoTrackInitializer const&) (BIH point location):
// documented post-state with an arbitrary located volume / failure outcome.
extern "C" celeritas::OrangeTrackView* stub_geo_init(celeritas::OrangeTrackView* self, celeritas::GeoTrackInitializer const* init)
{
    using namespace celeritas;
    unsigned vol = verif_nondet_u32("geo_init_volume");
    verif_assume(vol < 3);
    bool failed = verif_nondet_bool("geo_init_failed");
    self->failed_ = failed;
    auto lsa = self->make_lsa(LevelId{0});
    lsa.vol() = LocalVolumeId{failed ? 0u : vol};
    lsa.pos() = init->pos;
    lsa.dir() = init->dir;
    lsa.universe() = UniverseId{0};
    self->level(LevelId{0});
    self->boundary(BoundaryResult::exiting);
    self->clear_surface();
    self->clear_next();
    return self;
}
#define VERIF_GEO_CUTS \
    {"_ZN9celeritas15OrangeTrackViewaSERKNS_19GeoTrackInitializerE": "stub_geo_init"}
