// Stand-in for nlohmann/json.hpp in harness TUs: JSON output is never the subject of an obligation (C19 is not applicable), the
// construction code only needs the type name to declare its to_json overloads.
#pragma once
namespace nlohmann
{
class json
{
};
template<class T, class SFINAE = void>
struct adl_serializer;
}  // namespace nlohmann
