// Stand-in for corecel/io/JsonPimpl.hh in harness TUs (shadows the real header: harness/include precedes /repo/src on the include path):
// the output(JsonPimpl*) members of the construction classes become no-ops so that no JSON code is lowered into the IR.
#pragma once
#include <nlohmann/json.hpp>
namespace celeritas
{
struct JsonPimpl
{
    nlohmann::json obj;
};
template<class T>
inline void to_json_pimpl(JsonPimpl*, T const&)
{
}
}  // namespace celeritas
