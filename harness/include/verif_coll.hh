// Reference/const-reference native Collections over raw arrays (no std::vector in the IR).
#pragma once
#include "corecel/data/Collection.hh"

namespace verif
{
template<class Coll, class T>
inline void bind(Coll& c, T* data, std::size_t n)
{
    // Collection<T, (const_)reference, native, I>::storage_.data is a Span<T>; typed assignment (no byte pun) keeps
    // the generated C free of byte-level pointer updates
    c.storage_.data = {data, n};
}
}  // namespace verif
