// Harness <-> engine interface. Each obligation is an `extern "C" void obl_*()`
// that builds real Celeritas objects over small fixed arrays, draws symbolic
// inputs with verif_nondet_*, states preconditions with verif_assume and the
// obligation with verif_assert. The same TU is compiled (a) by clang to LLVM
// IR for the symbolic engines and (b) natively with g++ for replay and
// translator validation.
#pragma once
#include <cstdint>

extern "C" {
// symbolic inputs (engines: fresh variable; native: next value from replay file)
double verif_nondet_f64(char const* name);
float verif_nondet_f32(char const* name);
std::uint32_t verif_nondet_u32(char const* name);
std::uint64_t verif_nondet_u64(char const* name);
int verif_nondet_bool(char const* name);
// precondition; a violated assume ends the path
void verif_assume(int cond);
// obligation
void verif_assert(int cond, char const* label);
// reachability witness: the witness twin turns this into a failing assertion
void verif_reach(char const* label);
// observable value for translator validation (no semantic effect)
void verif_observe_u64(std::uint64_t v);
void verif_observe_f64(double v);
// known-finding region: records whether the current input lies in the region of known finding `id`
// (native: printed in the trace).  Returns cond only when the check re-runs with that finding excluded,
// so `verif_assume(!verif_known_region("F1", cond))` removes exactly the listed region and nothing else.
int verif_known_region(char const* id, int cond);
// equality "up to rounding": engine B in real mode decides EXACT equality over the reals (the algebraic claim);
// bit-precise engines and the native replay use |a-b| <= 1e-7 * max(|scale|, 1) so that a real-mode counterexample only
// reproduces natively when it is not a mere rounding artefact
int verif_approx_eq(double a, double b, double scale);
// assertion form: |a-b| <= tol * max(|scale|,1) with tol = 1e-7 in the solver (real mode included) and 0.9e-7 natively, so that a
// solver counterexample violates the native check by a margin and reproduces
int verif_close(double a, double b, double scale);
// hook called in place of __cxa_throw (path ends afterwards)
void verif_throw_hook(void);
// replaces the message formatting + throw of CELER_VALIDATE/CELER_RUNTIME_THROW (see verif_celer.hh)
[[noreturn]] void verif_validate_fail(void);
}

#define VERIF_OBLIGATION(name) extern "C" __attribute__((noinline)) void name(void)

namespace verif
{
inline double f64(char const* n) { return verif_nondet_f64(n); }
inline std::uint32_t u32(char const* n) { return verif_nondet_u32(n); }
inline std::uint64_t u64(char const* n) { return verif_nondet_u64(n); }
inline bool boolean(char const* n) { return verif_nondet_bool(n) != 0; }
//! nondet in [lo, hi]
inline std::uint32_t u32_in(char const* n, std::uint32_t lo, std::uint32_t hi)
{
    std::uint32_t v = verif_nondet_u32(n);
    verif_assume(v >= lo && v <= hi);
    return v;
}
}  // namespace verif
