"""Obligation runner: builds IR / native binaries from /repo's working tree, runs engine A (ir2c+CBMC) or
engine B (irsym+SMT) per obligation in parallel, replays counterexamples natively, validates the translators,
applies the known-findings policy and writes the evidence file."""
import hashlib
import json
import os
import random
import re
import shutil
import subprocess
import sys
import time
import traceback
from concurrent.futures import ProcessPoolExecutor, ThreadPoolExecutor, as_completed

from . import build

VERIF = build.VERIF
BUILD = build.BUILD


class Obl:
    def __init__(self, oid, harness, entry, engine, what, tier='quick', mode='bv', unwind=8, params=None, opts=None,
                 timeout=300, cuts=None, solvers=None, validate=True, unwindset=(), cbmc_extra=(), assumes=(), stubs=(),
                 bounds='', known=(), validate_n=None, expect_reach=True, mem_gb=12, solver=(), defines=(), unwind_fn=None, precut=None):
        self.id = oid
        self.harness = harness        # path relative to /verif/harness
        self.entry = entry
        self.engine = engine          # 'A' | 'B'
        self.what = what
        self.tier = tier              # 'quick' (both tiers) | 'thorough'
        self.mode = mode
        self.unwind = unwind
        self.params = params or {}
        self.opts = opts or {}
        self.timeout = timeout
        self.cuts = cuts or {}
        self.solvers = solvers
        self.validate = validate
        self.unwindset = unwindset
        self.cbmc_extra = cbmc_extra
        self.assumes = list(assumes)
        self.stubs = list(stubs)
        self.bounds = bounds
        self.known = list(known)       # ids of known findings whose region this obligation marks
        self.validate_n = validate_n
        self.expect_reach = expect_reach
        self.mem_gb = mem_gb
        self.solver = solver
        self.defines = tuple(defines)
        self.precut = dict(precut or {})   # {regex: stub}: body replacement on un-optimised IR (engines AND native replay see the stub)
        self.unwind_fn = unwind_fn or {}   # {regex on C function name: unwind bound} via --unwindset

    @property
    def hkey(self):
        if self.precut:
            return (self.harness, self.defines, tuple(sorted(self.precut.items())))
        return (self.harness, self.defines)


# ---------------------------------------------------------------------------
# build cache (per check invocation)

def harness_paths(h, tag=''):
    if isinstance(h, tuple):
        defs = h[1]
        tag = ''.join('_' + re.sub(r'\W', '_', d) for d in defs)
        if len(h) > 2:
            tag += '_cut' + hashlib.md5(repr(h[2]).encode()).hexdigest()[:6]
        h = h[0]
    base = h.replace('/', '_').replace('.cc', '') + tag
    return {'src': os.path.join(VERIF, 'harness', h), 'll': os.path.join(BUILD, base + '.ll'),
            'c': os.path.join(BUILD, base), 'bin': os.path.join(BUILD, base + '.native'),
            'cbin': os.path.join(BUILD, base)}


def prepare(harnesses, need_native=True):
    os.makedirs(BUILD, exist_ok=True)
    inc = build.gen_config(os.path.join(BUILD, 'inc'))
    t0 = time.time()
    errs = {}

    def job(h):
        p = harness_paths(h)
        defs = h[1] if isinstance(h, tuple) else ()
        cuts = dict(h[2]) if isinstance(h, tuple) and len(h) > 2 else None
        try:
            if cuts:
                build.compile_ir_cut(p['src'], p['ll'], inc, defines=defs, cuts=cuts)
                if need_native:
                    build.compile_native_from_ir(p['ll'], p['bin'], inc)
            else:
                build.compile_ir(p['src'], p['ll'], inc, defines=defs)
                if need_native:
                    build.compile_native(p['src'], p['bin'], inc, defines=defs)
        except Exception as e:
            errs[h] = str(e)
    with ThreadPoolExecutor(max_workers=8) as ex:
        list(ex.map(job, harnesses))
    return inc, errs, time.time() - t0


_mod_cache = {}


def load_module(ll):
    from . import llir
    key = (ll, os.path.getmtime(ll))
    if key not in _mod_cache:
        text = open(ll).read()
        _mod_cache[key] = (llir.parse_module(text), text)
    return _mod_cache[key]


# ---------------------------------------------------------------------------
# native replay

def write_replay(path, vals):
    with open(path, 'w') as f:
        f.write(' '.join('%x' % v for v in vals) + '\n')


def run_native(binary, entry, vals, tag):
    rp = os.path.join(BUILD, 'replay_%s.txt' % tag)
    write_replay(rp, vals)
    try:
        p = subprocess.run([binary, entry, rp], capture_output=True, text=True, timeout=60)
    except subprocess.TimeoutExpired:
        return None, 'timeout', rp
    return p.stdout.strip().split('\n'), p.stderr, rp


def trace_failed(trace):
    return any(l.strip() == 'assert 0' for l in trace or [])


def trace_known(trace):
    out = set()
    for l in trace or []:
        m = re.match(r'known (\S+) 1$', l.strip())
        if m:
            out.add(m.group(1))
    return out


# ---------------------------------------------------------------------------
# engine A

def c_for(obl):
    """generated C for one obligation's entry (own file so cuts/opts can differ)"""
    from . import ir2c
    p = harness_paths(obl.hkey)
    key = hashlib.md5((obl.entry + repr(sorted(obl.cuts.items())) + repr(sorted(obl.opts.items()))).encode()).hexdigest()[:8]
    cpath = '%s_%s_%s.c' % (p['c'], obl.entry, key)
    code, info = ir2c.translate(p['ll'], [obl.entry], cuts=obl.cuts, opts=obl.opts)
    code += '\n#ifndef __CPROVER__\nint main(int argc, char **argv) { verif_native_init(argv[2]); %s(); verif_native_end(); return 0; }\n#endif\n' % obl.entry
    with open(cpath, 'w') as f:
        f.write(code)
    return cpath, info


def run_A(obl, exclude_known=False):
    """CBMC identifies loops by backward gotos, so the block layout of the generated C decides how its unwinding counters
    behave; when the LLVM layout exceeds the bound the reverse-post-order layout is tried before giving up"""
    r = _run_A(obl, exclude_known)
    if r.get('status') == 'inconclusive' and 'unwinding assertion failed' in r.get('reason', '') and not obl.opts.get('rpo'):
        import copy
        o2 = copy.copy(obl)
        o2.opts = dict(obl.opts)
        o2.opts['rpo'] = True
        r2 = _run_A(o2, exclude_known)
        if r2.get('status') != 'inconclusive':
            r2['layout'] = 'reverse post-order (LLVM layout exceeded the unwinding bound)'
            return r2
    return r


def _run_A(obl, exclude_known=False):
    from . import cbmc
    res = {'id': obl.id, 'engine': 'A (ir2c + CBMC 6.11, bit-precise)', 'what': obl.what, 'entry': obl.entry}
    t0 = time.time()
    try:
        cpath, info = c_for(obl)
    except Exception as e:
        res.update(status='inconclusive', reason='ir2c: %s' % e, time=time.time() - t0)
        return res
    res['functions_encoded'] = info['functions_encoded']
    res['external_stubs'] = info['external_stubs']
    res['libm_uninterpreted'] = info['libm']
    res['warnings'] = info['warnings']
    defines = ['VERIF_EXCLUDE_KNOWN'] if exclude_known else []
    if obl.unwind_fn:
        us = list(obl.unwindset)
        for lid, fn in cbmc.loops(cpath, obl.entry):
            for pat, bound in obl.unwind_fn.items():
                if lid and re.search(pat, lid):
                    us.append('%s:%d' % (lid, bound))
                    break
        obl.unwindset = tuple(us)
    r = cbmc.run(cpath, obl.entry, unwind=obl.unwind, timeout=obl.timeout, unwindset=obl.unwindset, extra=obl.cbmc_extra,
                 defines=defines, mem_gb=obl.mem_gb, solver=obl.solver)
    res['cbmc_time_s'] = round(r['time'], 2)
    res['queries'] = 1
    res['bounds'] = 'unwind %d%s; %s' % (obl.unwind, (' ' + ','.join(obl.unwindset)) if obl.unwindset else '', obl.bounds)
    res['cpath'] = cpath
    if r['status'] in ('timeout', 'error'):
        res.update(status='inconclusive', reason='cbmc %s: %s' % (r['status'], r.get('detail', '')[:500]), time=time.time() - t0)
        return res
    res['cbmc_properties'] = r.get('n_properties', 0)
    fails = r.get('failures', [])
    kinds = {}
    for f in fails:
        kinds.setdefault(f['kind'], []).append(f)
    real = [f for f in fails if f['kind'] in ('obligation', 'safety', 'ub')]
    if 'unwind' in kinds and not real:
        res.update(status='inconclusive', reason='unwinding assertion failed: bound %d too small' % obl.unwind, time=time.time() - t0)
        return res
    if 'unwind' in kinds:
        # counterexamples found below the bound are still counterexamples (the native replay decides); the bound itself is reported
        res['note'] = 'unwinding bound %d exceeded on some path' % obl.unwind
        fails = real
    if 'unsupported' in kinds and not real:
        res.update(status='inconclusive', reason='unsupported construct reached: %s' % kinds['unsupported'][0]['description'], time=time.time() - t0)
        return res
    if fails:
        res['cex'] = [{'kind': f['kind'], 'description': f['description'], 'inputs': f.get('inputs', [])} for f in fails[:8]]
        res.update(status='cex', time=time.time() - t0)
        return res
    # vacuity witness
    if obl.expect_reach and not exclude_known:
        w = cbmc.run(cpath, obl.entry, unwind=obl.unwind, witness=True, timeout=obl.timeout, unwindset=obl.unwindset,
                     extra=obl.cbmc_extra, mem_gb=obl.mem_gb, solver=obl.solver)
        res['witness_time_s'] = round(w['time'], 2)
        res['queries'] += 1
        wk = [f for f in w.get('failures', []) if f['kind'] == 'witness']
        if not wk:
            res.update(status='inconclusive', reason='vacuous: witness assertion not reachable (%s)' % w['status'], time=time.time() - t0)
            return res
        res['witness_inputs'] = wk[0].get('inputs', [])
    res.update(status='held', time=time.time() - t0)
    return res


# ---------------------------------------------------------------------------
# engine B

def run_B(obl, exclude_known=False):
    from . import irsym, smt
    res = {'id': obl.id, 'engine': 'B (irsym + SMT portfolio, mode %s)' % obl.mode, 'what': obl.what, 'entry': obl.entry}
    t0 = time.time()
    p = harness_paths(obl.hkey)
    try:
        mod, text = load_module(p['ll'])
    except Exception as e:
        res.update(status='inconclusive', reason='IR parse: %s' % e, time=time.time() - t0)
        return res
    opts = dict(obl.opts)
    opts['params'] = obl.params
    if exclude_known:
        opts['exclude_known'] = tuple(obl.known)
    ex = irsym.SymExec(mod, obl.mode, opts, text, cuts=obl.cuts)
    try:
        r = ex.run(obl.entry)
    except Exception as e:
        res.update(status='inconclusive', reason='irsym crashed: %s' % traceback.format_exc()[-800:], time=time.time() - t0)
        return res
    res['functions_encoded'] = sorted(r.functions | {obl.entry})
    res['paths'] = r.paths
    res['forks'] = r.forks
    res['exec_time_s'] = round(time.time() - t0, 2)
    res['warnings'] = sorted(r.warnings)
    res['simplified_true'] = len(r.simplified)
    if r.dropped_on_bound:
        res['paths_beyond_loop_bound'] = r.dropped_on_bound
    res['bounds'] = 'max_site_forks %d, %s' % (ex.opts['max_site_forks'], obl.bounds)
    solvers = obl.solvers or ('z3', 'z3-new', 'cvc5')
    qs = r.queries
    stats = {'unsat': 0, 'sat': 0, 'unknown': 0}
    solver_time = 0.0
    winners = {}
    reach_ok = set()
    reach_labels = set()
    cex = []
    unknown = []
    # obligations first; reach queries until one per label is sat
    order = [q for q in qs if q.kind != 'reach'] + [q for q in qs if q.kind == 'reach']
    nq = 0
    n_refined = 0
    reach_ok_early = set()

    def discharge(q, txt, logic):
        return q, smt.portfolio(txt, solvers=solvers, timeout=obl.timeout, workdir=BUILD), logic

    with ThreadPoolExecutor(max_workers=int(os.environ.get('VERIF_SMT_WORKERS', '4'))) as pool:
        futs = []
        inproc_ms = int(obl.opts.get('inproc_ms', 2500))
        for q in order:
            if q.kind == 'reach':
                reach_labels.add(q.labels[0])
                if q.labels[0] in reach_ok_early:
                    continue
            # fast path: z3 (python API, v5.1) in-process on the sliced query; external portfolio only when undecided
            pre = smt.solve_inproc(q, inproc_ms) if inproc_ms > 0 else None
            if pre is not None:
                if q.kind == 'reach' and pre['status'] == 'sat':
                    reach_ok_early.add(q.labels[0])
                f_ = pool.submit(lambda q=q, pre=pre: (q, pre, None))
                futs.append(f_)
                continue
            txt, logic = smt.build_smt2(q)      # z3 API is not thread-safe: emit here, solve in threads
            futs.append(pool.submit(discharge, q, txt, logic))
        for f in futs:
            q, pr, logic = f.result()
            nq += 1
            solver_time += pr['time']
            stats[pr['status']] += 1
            if os.environ.get('VERIF_QLOG'):
                sys.stderr.write('[q %d/%d] %s %s %.1fs %s\n' % (nq, len(futs), q.kind, pr['status'], pr['time'], '; '.join(q.labels)[:100]))
            if pr['solver']:
                winners[pr['solver']] = winners.get(pr['solver'], 0) + 1
            if q.kind == 'reach':
                if pr['status'] == 'sat':
                    reach_ok.add(q.labels[0])
                continue
            if pr['status'] == 'sat':
                vals = pr['vals'] if 'vals' in pr else smt.parse_model(pr['output'], q.inputs)
                rest = getattr(q, 'sliced_rest', None) if 'vals' not in pr else None
                if vals is not None and rest:
                    # the query was sliced to the cone of influence: complete the model on the independent remainder
                    txt2, _ = smt.build_smt2(q, only=rest)
                    pr2 = smt.portfolio(txt2, solvers=solvers, timeout=obl.timeout, workdir=BUILD)
                    if pr2['status'] == 'sat':
                        vals2 = smt.parse_model(pr2['output'], q.inputs)
                        if vals2 is not None:
                            import z3 as _z3
                            from .smt import expr_vars
                            rest_vars = set()
                            for c_ in rest:
                                rest_vars |= expr_vars(c_)
                            for i_, (k_, l_, v_) in enumerate(q.inputs):
                                if isinstance(v_, _z3.ExprRef) and v_.decl().name() in rest_vars:
                                    vals[i_] = vals2[i_]
                    elif pr2['status'] == 'unsat':
                        vals = None   # the path is infeasible: the sliced sat answer is not a counterexample
                        stats['sat'] -= 1
                        stats['unsat'] += 1
                        continue
                refined = None
                if q.kind == 'obligation' and obl.mode == 'real' and q.libm and obl.opts.get('refine_libm', True) and n_refined < 4:
                    # uninterpreted libm: a model may use impossible function values; replay here and refine with true function points
                    binp = harness_paths(obl.hkey)['bin']

                    def _replay(v, _tag='ref_%s_%d' % (re.sub(r'\W', '_', obl.id), nq)):
                        tr_, _e, _rp = run_native(binp, obl.entry, v, _tag)
                        return trace_failed(tr_)
                    if vals is None or not _replay(vals):
                        n_refined += 1
                        v2 = smt.refine_libm(q, _replay, timeout_ms=int(obl.opts.get('refine_ms', 20000)))
                        if v2 is not None:
                            vals = v2
                            refined = True
                cex.append({'kind': q.kind if q.kind != 'memory' else 'safety', 'description': '; '.join(q.labels)[:300],
                            'inputs': vals, 'solver': pr['solver'], 'path': q.path, 'refined_libm': refined})
            elif pr['status'] == 'unknown':
                unknown.append('; '.join(q.labels)[:200] + ' ' + json.dumps(pr['answers']))
    res['queries'] = nq
    res['query_stats'] = stats
    if unknown:
        cnt = {}
        for u in unknown:
            k = u.split(' {')[0][:120]
            cnt[k] = cnt.get(k, 0) + 1
        res['unknown_labels'] = cnt
    res['solver_time_s'] = round(solver_time, 2)
    res['solver_wins'] = winners
    if r.errors:
        res.update(status='inconclusive', reason='%d path(s) not encodable: %s' % (len(r.errors), r.errors[0][1][:300]), time=time.time() - t0)
        if cex:
            res['cex'] = cex[:8]
            res['status'] = 'cex'
        return res
    if cex:
        res['cex'] = cex[:8]
        res.update(status='cex', time=time.time() - t0)
        return res
    if unknown:
        res.update(status='inconclusive', reason='%d query(ies) without verdict: %s' % (len(unknown), unknown[0]), time=time.time() - t0)
        return res
    if obl.expect_reach and not exclude_known and (not reach_labels or reach_labels - reach_ok):
        res.update(status='inconclusive', reason='vacuous: reach label(s) %s not shown reachable' % sorted(reach_labels - reach_ok or ['<none>']), time=time.time() - t0)
        return res
    res.update(status='held', time=time.time() - t0)
    return res


def run_obligation_local(obl, exclude_known=False):
    """runs in a thread with a large C stack: z3 prints/rewrites deep xor DAGs recursively"""
    import threading
    out = {}

    def body():
        out['r'] = _run_obligation(obl, exclude_known)
    sys.setrecursionlimit(200000)
    threading.stack_size(1 << 30)
    t = threading.Thread(target=body)
    t.start()
    t.join()
    threading.stack_size(0)
    return out.get('r') or {'id': obl.id, 'status': 'inconclusive', 'reason': 'worker thread died', 'what': obl.what, 'entry': obl.entry, 'time': 0.0}


def run_obligation(obl, exclude_known=False, prop=None):
    """isolated: one python process per obligation (a z3 crash or OOM then costs one obligation, not the run)"""
    if os.environ.get('VERIF_INPROC') or prop is None:
        return run_obligation_local(obl, exclude_known)
    out = os.path.join(BUILD, 'res_%s_%s_%d.json' % (prop, re.sub(r'\W', '_', obl.id), os.getpid()))
    if os.path.exists(out):
        os.unlink(out)
    cmd = [sys.executable, '-m', 'engine.worker', prop, obl.id, '1' if exclude_known else '0', out]
    t0 = time.time()
    try:
        p = subprocess.run(cmd, cwd=VERIF, capture_output=True, text=True, timeout=obl.timeout * 4 + 600)
        err = p.stderr[-400:]
        rc = p.returncode
    except subprocess.TimeoutExpired:
        err, rc = 'worker timeout', -1
    if os.path.exists(out):
        r = json.load(open(out))
        os.unlink(out)
        return r
    return {'id': obl.id, 'status': 'inconclusive', 'reason': 'worker process died (rc=%s): %s' % (rc, err.replace('\n', ' ')), 'what': obl.what,
            'entry': obl.entry, 'time': time.time() - t0}


def _run_obligation(obl, exclude_known=False):
    try:
        if obl.engine == 'A':
            return run_A(obl, exclude_known)
        return run_B(obl, exclude_known)
    except Exception:
        return {'id': obl.id, 'status': 'inconclusive', 'reason': 'runner exception: ' + traceback.format_exc()[-1500:], 'what': obl.what,
                'entry': obl.entry, 'time': 0.0}


# ---------------------------------------------------------------------------
# translator validation

def validate_translators(obls, seed, n_default=40):
    """native g++ harness vs gcc-compiled ir2c output (engine A) / irsym concrete interpretation (engine B)"""
    rng = random.Random(seed)
    report = {'vectors': 0, 'mismatches': [], 'skipped': []}
    seen = set()
    for obl in obls:
        if not obl.validate:
            continue
        key = (obl.hkey, obl.entry, obl.engine, repr(sorted(obl.params.items())))
        if key in seen:
            continue
        seen.add(key)
        p = harness_paths(obl.hkey)
        n = obl.validate_n or n_default
        cbin = None
        if obl.engine == 'A':
            try:
                cpath, _ = c_for(obl)
                cbin = cpath[:-2] + '.cbin'
                rt = os.path.join(VERIF, 'engine/rt')
                cp = subprocess.run(['gcc', '-std=gnu11', '-O0', '-w', '-ffp-contract=off', '-I', rt, cpath, os.path.join(rt, 'verif_rt.c'), '-o', cbin, '-lm'],
                                    capture_output=True, text=True)
                if cp.returncode != 0:
                    report['mismatches'].append({'obligation': obl.id, 'error': 'gcc failed on generated C: ' + cp.stderr[-500:]})
                    continue
            except Exception as e:
                report['skipped'].append('%s: %s' % (obl.id, e))
                continue
        else:
            from . import irsym
            mod, text = load_module(p['ll'])
        for k in range(n):
            vals = gen_vector(rng, k)
            # parameters are part of the input vector for the native run: find their positions by a dry run is not
            # possible, so parameters are passed by name to irsym and by value order to native: params come first
            # by convention (harnesses read P: inputs right after the fixture) -- handled by native reading the same list
            ntrace, nerr, rp = run_native(p['bin'], obl.entry, vals, 'val_%s_%d' % (obl.entry, os.getpid()))
            if ntrace is None:
                continue
            if obl.engine == 'A':
                cpz = subprocess.run([cbin, obl.entry, rp], capture_output=True, text=True, timeout=60)
                otrace = cpz.stdout.strip().split('\n')
            else:
                opts = dict(obl.opts)
                opts['params'] = {}
                ex = irsym.SymExec(mod, 'fp' if obl.mode != 'real' else 'real', opts, text, cuts=obl.cuts)
                try:
                    r = ex.run(obl.entry, concrete_inputs=vals)
                except Exception as e:
                    report['skipped'].append('%s: irsym concrete run failed: %s' % (obl.id, str(e)[:200]))
                    break
                if r.errors:
                    report['skipped'].append('%s: %s' % (obl.id, r.errors[0][1][:200]))
                    break
                otrace = (r.traces[0] if r.traces else []) + ['end']
                if obl.mode == 'real':
                    # exact arithmetic may legitimately differ from IEEE in assert outcomes that are tolerance-free;
                    # only compare the control skeleton length for real mode
                    ntrace = [l for l in ntrace if not l.startswith('obs')]
                    otrace = [l for l in otrace if not l.startswith('obs')]
            report['vectors'] += 1
            nt = [l for l in ntrace if not l.startswith('known')]
            ot = [l for l in otrace if not l.startswith('known')]
            if nt != ot:
                if obl.mode == 'real' and obl.engine == 'B':
                    continue
                report['mismatches'].append({'obligation': obl.id, 'inputs': ['%x' % v for v in vals[:16]], 'native': nt[:12], 'translated': ot[:12]})
                break
    return report


def gen_vector(rng, k):
    import struct
    vals = []
    for i in range(96):
        c = rng.random()
        if c < 0.25:
            vals.append(rng.getrandbits(64))
        elif c < 0.5:
            vals.append(rng.getrandbits(3))
        elif c < 0.75:
            d = rng.uniform(-4, 4) if rng.random() < 0.5 else 10 ** rng.uniform(-6, 6)
            vals.append(struct.unpack('<Q', struct.pack('<d', d))[0])
        else:
            vals.append(rng.getrandbits(32))
    return vals


# ---------------------------------------------------------------------------
# property-level driver

def load_known():
    path = os.path.join(VERIF, 'known_findings.json')
    if not os.path.exists(path):
        return []
    return json.load(open(path))


def check_property(pid, obls, tier, seed, level_note='', assumptions=(), trusted=(), jobs=None):
    t0 = time.time()
    obls = [o for o in obls if tier == 'thorough' or o.tier == 'quick']
    harnesses = sorted({o.hkey for o in obls})
    inc, errs, build_t = prepare(harnesses)
    results = []
    violations = []
    known_lines = []
    known = [k for k in load_known() if k.get('property') == pid]
    open_known = {k['id']: k for k in known if k.get('status') == 'open'}
    ok_obls = [o for o in obls if o.hkey not in errs]
    for o in obls:
        if o.hkey in errs:
            results.append({'id': o.id, 'status': 'inconclusive', 'reason': 'harness does not compile against the working tree: ' + errs[o.hkey][-300:].replace('\n', ' '),
                            'what': o.what, 'entry': o.entry, 'time': 0.0})
    jobs = jobs or int(os.environ.get('VERIF_JOBS', '8'))
    if os.environ.get('VERIF_INPROC'):
        for o in ok_obls:
            results.append(run_obligation(o))
    else:
        with ThreadPoolExecutor(max_workers=jobs) as pool:
            futs = [pool.submit(run_obligation, o, False, pid) for o in ok_obls]
            for f in futs:
                results.append(f.result())
    by_id = {o.id: o for o in obls}
    replay_dir = os.path.join(VERIF, 'evidence', 'replay')
    os.makedirs(replay_dir, exist_ok=True)
    for r in sorted(results, key=lambda r: r['id']):
        if r['status'] != 'cex':
            continue
        o = by_id[r['id']]
        p = harness_paths(o.hkey)
        confirmed = None
        r['replays'] = []
        for i, c in enumerate(r['cex']):
            vals = c.get('inputs')
            if vals is None:
                r['replays'].append({'cex': c['description'], 'result': 'model not extractable'})
                continue
            tr, err, rp = run_native(p['bin'], o.entry, vals, '%s_%d' % (re.sub(r'\W', '_', o.id), i))
            failed = trace_failed(tr)
            kn = trace_known(tr)
            r['replays'].append({'cex': c['description'], 'kind': c['kind'], 'reproduced': failed, 'known_regions': sorted(kn),
                                 'failed_labels': re.findall(r'FAILED-OBLIGATION (.*)', err or '')[:4], 'inputs': ['%x' % v for v in vals[:24]]})
            if failed and confirmed is None:
                dest = os.path.join(replay_dir, '%s-%s.txt' % (pid, re.sub(r'\W', '_', o.id)))
                shutil.copy(rp, dest)
                confirmed = (dest, kn, c)
        if confirmed is None:
            r['status'] = 'inconclusive'
            r['reason'] = 'UNCONFIRMED: solver counterexample did not reproduce on the native build (encoding/stub artefact or non-obligation check): %s' % r['cex'][0]['description'][:200]
            continue
        dest, kn, c = confirmed
        hit = [k for k in kn if k in open_known and k in o.known]
        if hit:
            r['status'] = 'known'
            r['known'] = hit
            for k in hit:
                known_lines.append('KNOWN-FINDING: property=%s %s [%s, obligation %s]' % (pid, open_known[k]['what'], k, o.id))
            # any OTHER violation of the same obligation must still be reported
            r2 = run_obligation(o, exclude_known=True, prop=pid)
            r['excluding_known'] = {'status': r2['status'], 'reason': r2.get('reason', ''), 'time': r2.get('time')}
            if r2['status'] == 'cex':
                for i, c2 in enumerate(r2['cex']):
                    if c2.get('inputs') is None:
                        continue
                    tr, err, rp = run_native(p['bin'], o.entry, c2['inputs'], '%s_x%d' % (re.sub(r'\W', '_', o.id), i))
                    if trace_failed(tr) and not (trace_known(tr) & set(hit)):
                        dest2 = os.path.join(replay_dir, '%s-%s-other.txt' % (pid, re.sub(r'\W', '_', o.id)))
                        shutil.copy(rp, dest2)
                        r['status'] = 'violated'
                        violations.append((o.id, dest2))
                        break
            elif r2['status'] == 'inconclusive':
                r['excluding_known']['note'] = 'remaining region not decided'
        else:
            r['status'] = 'violated'
            r['replay'] = dest
            violations.append((o.id, dest))
    # translator validation
    tv = validate_translators([o for o in ok_obls], seed)
    broken = bool(tv['mismatches'])
    held = [r for r in results if r['status'] == 'held']
    inconc = [r for r in results if r['status'] == 'inconclusive']
    wall = time.time() - t0
    queries = sum(r.get('queries', 0) for r in results)
    funcs = sorted({f for r in results for f in r.get('functions_encoded', [])})
    samples = []
    for r in sorted(results, key=lambda r: r['id']):
        s = {k: r.get(k) for k in ('id', 'what', 'status', 'engine', 'bounds', 'queries', 'time', 'reason', 'query_stats', 'solver_wins',
                                   'solver_time_s', 'cbmc_time_s', 'paths', 'known', 'excluding_known', 'replays', 'simplified_true', 'warnings',
                                   'external_stubs', 'libm_uninterpreted', 'paths_beyond_loop_bound', 'layout', 'note') if r.get(k) not in (None, [], {}, '')}
        if 'time' in s:
            s['time'] = round(s['time'], 2)
        o = by_id.get(r['id'])
        if o is not None:
            if o.assumes:
                s['assumes'] = o.assumes
            if o.stubs:
                s['stubs'] = o.stubs
        samples.append(s)
    ev = {
        'property_id': pid, 'tier': tier, 'seed': seed, 'level': 'model_checking',
        'coverage': {
            'evaluations': queries,
            'distinct_nontrivial': len(held),
            'rule': 'evaluations = solver queries discharged (CBMC runs incl. witness twins + SMT queries); distinct_nontrivial = distinct '
                    'obligations that the solver decided as holding for all inputs within their bounds AND whose witness twin was shown reachable',
            'samples': samples,
            # model_checking keys, all measured on this run: states = symbolic execution paths (engine B) plus properties/VCCs
            # checked by CBMC (engine A) over symbolic inputs; transitions = symbolic forks plus solver queries;
            # traces_validated_against_impl = concrete input vectors on which the translated code and the native build of the
            # same harness produced identical event traces, plus natively replayed counterexamples
            'states': max(1, sum(r.get('paths', 0) + r.get('cbmc_properties', 0) for r in results)),
            'transitions': max(1, sum(r.get('forks', 0) + r.get('queries', 0) for r in results)),
            'traces_validated_against_impl': tv['vectors'] + sum(len(r.get('replays', [])) for r in results),
            'obligations': len(results), 'discharged': len(held), 'not_discharged': [r['id'] + ': ' + r.get('reason', '')[:300] for r in inconc],
            'functions_encoded': funcs,
            'solver_time_s': round(sum(r.get('solver_time_s', 0) + r.get('cbmc_time_s', 0) + r.get('witness_time_s', 0) for r in results), 1),
            'translator_validation': tv,
            'build_time_s': round(build_t, 1),
            'known_findings': known_lines,
            'trusted_base': list(trusted),
        },
        'assumptions': list(assumptions),
        'wall_s': round(wall, 1),
        'violations': len(violations),
    }
    os.makedirs(os.path.join(VERIF, 'evidence'), exist_ok=True)
    with open(os.path.join(VERIF, 'evidence', pid + '.json'), 'w') as f:
        json.dump(ev, f, indent=1, default=str)
    for l in known_lines:
        print(l)
    for r in sorted(results, key=lambda r: r['id']):
        print('  [%s] %-14s %s %s' % (pid, r['id'], r['status'].upper(), ('- ' + r.get('reason', '')[:160]) if r['status'] == 'inconclusive' else '(%.1fs)' % r.get('time', 0)))
    if broken:
        print('BROKEN-CHECK property=%s translator validation mismatch: %s' % (pid, json.dumps(tv['mismatches'][0])[:400]), file=sys.stderr)
    for oid, path in violations:
        print('VIOLATION property=%s replay=%s' % (pid, path))
    print('%s: %d obligations, %d held, %d inconclusive, %d violated, %d known; %d solver queries; %.1fs' % (
        pid, len(results), len(held), len(inconc), len(violations), len([r for r in results if r['status'] == 'known']), queries, wall))
    return 1 if violations else 0
