"""Value domain of the symbolic executor (engine B).

ints    : python int (masked) | z3 BitVecRef ; i1: python 0/1 | z3 BoolRef
floats  : mode 'real': Fraction | XInf(+1/-1) | z3 Real | XR(pinf, ninf, val)
          mode 'fp'  : python float | z3 FPRef
pointers: Ptr(obj, off)   off: python int | z3 BV64
PInt    : result of ptrtoint (obj, off) -- supports the pointer-difference idiom
"""
import math
import struct
from fractions import Fraction

import z3


class Unsupported(Exception):
    pass


class Ptr:
    __slots__ = ('obj', 'off')

    def __init__(self, obj, off):
        self.obj = obj
        self.off = off

    def __repr__(self):
        return 'Ptr(%r,%r)' % (self.obj, self.off)


class PInt:
    __slots__ = ('obj', 'off', 'bits')

    def __init__(self, obj, off, bits=64):
        self.obj = obj
        self.off = off
        self.bits = bits


class FuncPtr:
    __slots__ = ('name',)

    def __init__(self, name):
        self.name = name


class XInf:
    """concrete +-infinity in real mode"""
    __slots__ = ('sign',)

    def __init__(self, sign):
        self.sign = sign

    def __repr__(self):
        return '+inf' if self.sign > 0 else '-inf'


class XR:
    """symbolic extended real: +inf if pinf, -inf if ninf, else val"""
    __slots__ = ('pinf', 'ninf', 'val')

    def __init__(self, pinf, ninf, val):
        self.pinf = pinf
        self.ninf = ninf
        self.val = val


def is_sym(v):
    return isinstance(v, z3.ExprRef)


def mask(v, bits):
    return v & ((1 << bits) - 1)


def to_signed(v, bits):
    return v - (1 << bits) if v >> (bits - 1) else v


def bv(v, bits):
    """z3 bit-vector of a python-or-z3 int value"""
    if is_sym(v):
        if z3.is_bool(v):
            return z3.If(v, z3.BitVecVal(1, bits), z3.BitVecVal(0, bits))
        return v
    return z3.BitVecVal(v, bits)


def boolean(v):
    """z3 Bool / python bool of an i1 value"""
    if is_sym(v):
        if z3.is_bool(v):
            return v
        return v == z3.BitVecVal(1, 1)
    return bool(v & 1)


def simp(e):
    if is_sym(e):
        return z3.simplify(e)
    return e


def concretize(e):
    """python value if the z3 expression is a literal"""
    if not is_sym(e):
        return e
    if z3.is_bv_value(e):
        return e.as_long()
    if z3.is_true(e):
        return 1
    if z3.is_false(e):
        return 0
    if z3.is_rational_value(e):
        return Fraction(e.numerator_as_long(), e.denominator_as_long())
    return e


# ---------------------------------------------------------------------------
# integer operations


def int_binop(op, a, b, bits):
    if isinstance(a, PInt) or isinstance(b, PInt):
        return pint_binop(op, a, b, bits)
    if bits == 1 and (is_sym(a) or is_sym(b)) and op in ('and', 'or', 'xor', 'add', 'sub', 'mul'):
        x, y = boolean(a), boolean(b)
        if op in ('and', 'mul'):
            return simp(z3.And(x, y))
        if op == 'or':
            return simp(z3.Or(x, y))
        return simp(z3.Xor(x, y))
    if not is_sym(a) and not is_sym(b):
        m = (1 << bits) - 1
        if op == 'add':
            return (a + b) & m
        if op == 'sub':
            return (a - b) & m
        if op == 'mul':
            return (a * b) & m
        if op == 'and':
            return a & b
        if op == 'or':
            return a | b
        if op == 'xor':
            return a ^ b
        if op == 'shl':
            return (a << b) & m if b < bits else 0
        if op == 'lshr':
            return a >> b if b < bits else 0
        if op == 'ashr':
            return mask(to_signed(a, bits) >> min(b, bits - 1), bits)
        if op == 'udiv':
            if b == 0:
                raise Unsupported('udiv by zero')
            return a // b
        if op == 'urem':
            if b == 0:
                raise Unsupported('urem by zero')
            return a % b
        if op in ('sdiv', 'srem'):
            if b == 0:
                raise Unsupported('sdiv by zero')
            sa, sb = to_signed(a, bits), to_signed(b, bits)
            q = abs(sa) // abs(sb)
            if (sa < 0) != (sb < 0):
                q = -q
            if op == 'sdiv':
                return mask(q, bits)
            return mask(sa - q * sb, bits)
        raise Unsupported('int op ' + op)
    # cheap identities keep accumulator patterns (x ^= 0, x + 0, x & mask) small; no global simplify here:
    # simplifying a growing DAG after every instruction is quadratic
    m = (1 << bits) - 1
    for (p_, q_, left) in ((a, b, True), (b, a, False)):
        if not is_sym(q_):
            if q_ == 0:
                if op in ('add', 'or', 'xor') or (op in ('sub', 'shl', 'lshr', 'ashr') and left):
                    return p_
                if op in ('and', 'mul'):
                    return 0
            if q_ == m and op == 'and':
                return p_
            if q_ == 1 and (op == 'mul' or (op in ('udiv', 'sdiv') and left)):
                return p_
    x, y = bv(a, bits), bv(b, bits)
    if op == 'add':
        r = x + y
    elif op == 'sub':
        r = x - y
    elif op == 'mul':
        r = x * y
    elif op == 'and':
        r = x & y
    elif op == 'or':
        r = x | y
    elif op == 'xor':
        r = x ^ y
    elif op == 'shl':
        r = x << y
    elif op == 'lshr':
        r = z3.LShR(x, y)
    elif op == 'ashr':
        r = x >> y
    elif op == 'udiv':
        r = z3.UDiv(x, y)
    elif op == 'urem':
        r = z3.URem(x, y)
    elif op == 'sdiv':
        r = x / y
    elif op == 'srem':
        r = z3.SRem(x, y)
    else:
        raise Unsupported('int op ' + op)
    return r


def pint_binop(op, a, b, bits):
    if op == 'sub' and isinstance(a, PInt) and isinstance(b, PInt):
        if a.obj != b.obj:
            raise Unsupported('difference of pointers into different objects')
        return int_binop('sub', a.off, b.off, bits)
    if op == 'add' and isinstance(a, PInt) and not isinstance(b, PInt):
        return PInt(a.obj, int_binop('add', a.off, b, bits), bits)
    if op == 'add' and isinstance(b, PInt) and not isinstance(a, PInt):
        return PInt(b.obj, int_binop('add', b.off, a, bits), bits)
    if op == 'sub' and isinstance(a, PInt):
        return PInt(a.obj, int_binop('sub', a.off, b, bits), bits)
    raise Unsupported('arithmetic %s on pointer-derived integer' % op)


def icmp(pred, a, b, bits):
    if isinstance(a, PInt) or isinstance(b, PInt):
        if isinstance(a, PInt) and isinstance(b, PInt):
            if a.obj == b.obj:
                return icmp(pred, a.off, b.off, bits)
            if pred == 'eq':
                return 0
            if pred == 'ne':
                return 1
        if pred in ('eq', 'ne') and (a == 0 or b == 0):
            p = a if isinstance(a, PInt) else b
            isnull = 1 if p.obj == 0 and p.off == 0 else 0
            return isnull if pred == 'eq' else 1 - isnull
        raise Unsupported('icmp on pointer-derived integers')
    if bits == 1 and (is_sym(a) or is_sym(b)):
        x, y = boolean(a), boolean(b)
        if pred == 'eq':
            return simp(x == y)
        if pred == 'ne':
            return simp(z3.Xor(x, y))
        a, b = bv(a, 1), bv(b, 1)
    if not is_sym(a) and not is_sym(b):
        if pred[0] == 's':
            a, b = to_signed(a, bits), to_signed(b, bits)
        r = {'eq': a == b, 'ne': a != b, 'ugt': a > b, 'uge': a >= b, 'ult': a < b, 'ule': a <= b,
             'sgt': a > b, 'sge': a >= b, 'slt': a < b, 'sle': a <= b}[pred]
        return 1 if r else 0
    x, y = bv(a, bits), bv(b, bits)
    r = {'eq': lambda: x == y, 'ne': lambda: x != y, 'ugt': lambda: z3.UGT(x, y), 'uge': lambda: z3.UGE(x, y),
         'ult': lambda: z3.ULT(x, y), 'ule': lambda: z3.ULE(x, y), 'sgt': lambda: x > y, 'sge': lambda: x >= y,
         'slt': lambda: x < y, 'sle': lambda: x <= y}[pred]()
    return r


def int_cast(op, v, sb, db):
    if isinstance(v, PInt):
        if db >= v.bits or op == 'trunc' and db >= 32:
            if op == 'trunc':
                # truncation of a pointer-derived value: only meaningful for differences; refuse
                raise Unsupported('trunc of pointer-derived integer')
            return PInt(v.obj, v.off, db)
        raise Unsupported('cast of pointer-derived integer')
    if not is_sym(v):
        if op == 'trunc':
            return mask(v, db)
        if op == 'zext':
            return v
        return mask(to_signed(v, sb), db)
    if op == 'trunc':
        if db == 1:
            return z3.Extract(0, 0, bv(v, sb)) == z3.BitVecVal(1, 1)
        return z3.Extract(db - 1, 0, bv(v, sb))
    if op == 'zext':
        return z3.ZeroExt(db - sb, bv(v, sb))
    return z3.SignExt(db - sb, bv(v, sb))


# ---------------------------------------------------------------------------
# floating point, real mode


def rlit(d):
    """python float constant -> real-mode value"""
    if isinstance(d, (Fraction, XInf)):
        return d
    if math.isinf(d):
        return XInf(1 if d > 0 else -1)
    if math.isnan(d):
        raise Unsupported('NaN constant in real mode')
    return Fraction(d)


def rz3(v):
    """z3 Real of a finite real-mode value"""
    if isinstance(v, Fraction):
        return z3.RealVal(str(v.numerator) + '/' + str(v.denominator)) if v.denominator != 1 else z3.RealVal(v.numerator)
    if isinstance(v, (XInf, XR)):
        raise Unsupported('arithmetic on a possibly infinite value in real mode')
    return v


def r_arith(op, a, b):
    if isinstance(a, (XInf, XR)) or isinstance(b, (XInf, XR)):
        return r_arith_inf(op, a, b)
    if isinstance(a, Fraction) and isinstance(b, Fraction):
        if op == 'fadd':
            return a + b
        if op == 'fsub':
            return a - b
        if op == 'fmul':
            return a * b
        if op == 'fdiv':
            if b == 0:
                if a == 0:
                    raise Unsupported('0/0 in real mode')
                return XInf(1 if a > 0 else -1)
            return a / b
    x, y = rz3(a), rz3(b)
    if op == 'fadd':
        r = x + y
    elif op == 'fsub':
        r = x - y
    elif op == 'fmul':
        if isinstance(a, Fraction) and a == 0 or isinstance(b, Fraction) and b == 0:
            return Fraction(0)
        r = x * y
    elif op == 'fdiv':
        r = x / y
    else:
        raise Unsupported(op)
    return r


def r_arith_inf(op, a, b):
    # only the cases with a definite mathematical meaning are supported
    if isinstance(a, XR) or isinstance(b, XR):
        raise Unsupported('arithmetic on a possibly infinite symbolic value in real mode')
    ai = isinstance(a, XInf)
    bi = isinstance(b, XInf)
    if op == 'fdiv' and not ai and bi:
        return Fraction(0)
    if op == 'fneg':
        return XInf(-a.sign)
    if isinstance(a, Fraction) or isinstance(b, Fraction):
        # inf op concrete-finite
        fin = a if bi else b
        inf = b if bi else a
        if op in ('fadd',):
            return inf
        if op == 'fsub':
            return inf if ai else XInf(-inf.sign)
        if op == 'fmul' and fin != 0:
            return XInf(inf.sign * (1 if fin > 0 else -1))
        if op == 'fdiv' and ai and fin != 0:
            return XInf(inf.sign * (1 if fin > 0 else -1))
    raise Unsupported('arithmetic %s with infinity and a symbolic value in real mode' % op)


def r_parts(v):
    """(pinf, ninf, val) with z3/py bools; val may be None for concrete infinities"""
    if isinstance(v, XInf):
        return (v.sign > 0, v.sign < 0, None)
    if isinstance(v, XR):
        return (v.pinf, v.ninf, v.val)
    return (False, False, v)


def b_and(*xs):
    out = []
    for x in xs:
        if x is True:
            continue
        if x is False:
            return False
        out.append(x)
    if not out:
        return True
    return out[0] if len(out) == 1 else z3.And(*out)


def b_or(*xs):
    out = []
    for x in xs:
        if x is False:
            continue
        if x is True:
            return True
        out.append(x)
    if not out:
        return False
    return out[0] if len(out) == 1 else z3.Or(*out)


def b_not(x):
    if x is True:
        return False
    if x is False:
        return True
    return z3.Not(x)


def _pyb(x):
    if is_sym(x):
        x = z3.simplify(x)
        if z3.is_true(x):
            return True
        if z3.is_false(x):
            return False
        return x
    return bool(x)


def r_lt(a, b):
    """a < b over extended reals -> py bool or z3 Bool"""
    ap, an, av = r_parts(a)
    bp, bn, bv_ = r_parts(b)
    fin_a = b_not(b_or(ap, an))
    fin_b = b_not(b_or(bp, bn))
    if av is not None and bv_ is not None:
        if isinstance(av, Fraction) and isinstance(bv_, Fraction):
            core = av < bv_
        else:
            core = rz3(av) < rz3(bv_)
    else:
        core = False
    # a<b iff (a=-inf and b!=-inf) or (b=+inf and a!=+inf) or (both finite and av<bv)
    return _pyb(b_or(b_and(an, b_not(bn)), b_and(bp, b_not(ap)), b_and(fin_a, fin_b, core)))


def r_eq(a, b):
    ap, an, av = r_parts(a)
    bp, bn, bv_ = r_parts(b)
    fin_a = b_not(b_or(ap, an))
    fin_b = b_not(b_or(bp, bn))
    if av is not None and bv_ is not None:
        if isinstance(av, Fraction) and isinstance(bv_, Fraction):
            core = av == bv_
        else:
            core = rz3(av) == rz3(bv_)
    else:
        core = False
    return _pyb(b_or(b_and(ap, bp), b_and(an, bn), b_and(fin_a, fin_b, core)))


def r_fcmp(pred, a, b):
    """ordered and unordered predicates coincide (no NaN in real mode)"""
    p = pred
    if p in ('true',):
        return 1
    if p in ('false', 'uno'):
        return 0
    if p == 'ord':
        return 1
    p = p[1:]
    if p == 'eq':
        r = r_eq(a, b)
    elif p == 'ne':
        r = b_not(r_eq(a, b))
    elif p == 'lt':
        r = r_lt(a, b)
    elif p == 'gt':
        r = r_lt(b, a)
    elif p == 'le':
        r = b_not(r_lt(b, a))
    elif p == 'ge':
        r = b_not(r_lt(a, b))
    else:
        raise Unsupported('fcmp ' + pred)
    r = _pyb(r)
    if r is True:
        return 1
    if r is False:
        return 0
    return r


def r_select(c, a, b):
    """c: z3 Bool"""
    ap, an, av = r_parts(a)
    bp, bn, bv_ = r_parts(b)
    if ap is False and an is False and bp is False and bn is False:
        return z3.If(c, rz3(av), rz3(bv_))

    def ite(x, y):
        if x is y:
            return x
        x = z3.BoolVal(x) if isinstance(x, bool) else x
        y = z3.BoolVal(y) if isinstance(y, bool) else y
        return z3.simplify(z3.If(c, x, y))
    zero = z3.RealVal(0)
    val = z3.If(c, rz3(av) if av is not None else zero, rz3(bv_) if bv_ is not None else zero)
    return XR(_pyb(ite(ap, bp)), _pyb(ite(an, bn)), val)


# ---------------------------------------------------------------------------
# floating point, IEEE mode


def f32round(x):
    return struct.unpack('<f', struct.pack('<f', x))[0]


def fp_sort(bits):
    return z3.Float64() if bits == 64 else z3.Float32()


def fpz3(v, bits):
    if is_sym(v):
        return v
    return z3.FPVal(v, fp_sort(bits))


RNE = z3.RNE()


def fp_arith(op, a, b, bits):
    if not is_sym(a) and not is_sym(b):
        try:
            if op == 'fadd':
                r = a + b
            elif op == 'fsub':
                r = a - b
            elif op == 'fmul':
                r = a * b
            elif op == 'fdiv':
                if b == 0:
                    if a == 0 or math.isnan(a):
                        r = math.nan
                    else:
                        r = math.copysign(math.inf, a) * math.copysign(1.0, b)
                else:
                    r = a / b
            else:
                raise Unsupported(op)
        except OverflowError:
            r = math.inf
        return f32round(r) if bits == 32 else r
    x, y = fpz3(a, bits), fpz3(b, bits)
    if op == 'fadd':
        return z3.fpAdd(RNE, x, y)
    if op == 'fsub':
        return z3.fpSub(RNE, x, y)
    if op == 'fmul':
        return z3.fpMul(RNE, x, y)
    if op == 'fdiv':
        return z3.fpDiv(RNE, x, y)
    raise Unsupported(op)


def fp_fcmp(pred, a, b, bits):
    if not is_sym(a) and not is_sym(b):
        un = math.isnan(a) or math.isnan(b)
        base = {'eq': a == b, 'ne': a != b, 'lt': a < b, 'le': a <= b, 'gt': a > b, 'ge': a >= b}
        if pred == 'ord':
            return 0 if un else 1
        if pred == 'uno':
            return 1 if un else 0
        if pred == 'true':
            return 1
        if pred == 'false':
            return 0
        if pred[0] == 'o':
            if pred == 'one':
                return 1 if (not un and a != b) else 0
            return 1 if (not un and base[pred[1:]]) else 0
        if pred == 'une':
            return 1 if (un or a != b) else 0
        return 1 if (un or base[pred[1:]]) else 0
    x, y = fpz3(a, bits), fpz3(b, bits)
    un = z3.Or(z3.fpIsNaN(x), z3.fpIsNaN(y))
    base = {'eq': lambda: z3.fpEQ(x, y), 'ne': lambda: z3.Not(z3.fpEQ(x, y)), 'lt': lambda: z3.fpLT(x, y),
            'le': lambda: z3.fpLEQ(x, y), 'gt': lambda: z3.fpGT(x, y), 'ge': lambda: z3.fpGEQ(x, y)}
    if pred == 'ord':
        return z3.Not(un)
    if pred == 'uno':
        return un
    if pred == 'true':
        return 1
    if pred == 'false':
        return 0
    if pred[0] == 'o':
        if pred == 'one':
            return z3.And(z3.Not(un), z3.Not(z3.fpEQ(x, y)))
        return base[pred[1:]]()   # IEEE predicates are false on NaN
    if pred == 'une':
        return z3.Or(un, z3.Not(z3.fpEQ(x, y)))
    return z3.Or(un, base[pred[1:]]())
