"""Engine B: path-wise symbolic execution of LLVM IR (llir) producing SMT queries.

modes: 'bv' (ints exact; floats unsupported unless concrete -> uses 'fp' arithmetic on python floats)
       'real' (double as mathematical real, see DESIGN 2.3)
       'fp' (IEEE via z3 FloatingPoint)
Every obligation (verif_assert) becomes a query  pc /\\ not(cond); verif_reach records pc for the
vacuity witness.  Unsupported constructs abort the path and are reported (never counted as success).
"""
import os
import sys
import math
import time
from fractions import Fraction

import z3

from . import llir
from .symval import (Ptr, PInt, FuncPtr, XInf, XR, Unsupported, is_sym, mask, to_signed, bv, boolean, simp, concretize,
                     int_binop, icmp, int_cast, rlit, rz3, r_arith, r_fcmp, r_select, r_parts, r_lt, fp_arith, fp_fcmp,
                     fpz3, fp_sort, f32round, RNE, b_not)
from .ir2c import NORETURN_NAMES, NORETURN_PREFIX, LIBM1, LIBM2, scan_attrs


class RealBits:
    """real mode: the (unknown) bit pattern of a real-valued double/float that is only being MOVED through an integer register (clang copies
    small structs with i64 loads/stores).  Storing it gives back the real value; any other use is unsupported."""
    __slots__ = ('v', 'n')

    def __init__(self, v, n):
        self.v = v
        self.n = n


class PathEnd(Exception):
    pass


class Obj:
    __slots__ = ('size', 'cells', 'zero', 'name', 'const', 'shared')

    def __init__(self, size, name='', zero=False, const=False):
        self.size = size
        self.cells = {}      # off -> (value, kind, nbytes)   kind in 'i','f','p'
        self.zero = zero
        self.name = name
        self.const = const
        self.shared = False

    def clone(self):
        o = Obj(self.size, self.name, self.zero, self.const)
        o.cells = dict(self.cells)
        return o


class Frame:
    __slots__ = ('fn', 'block', 'idx', 'regs', 'prev', 'res', 'fid', 'normal')

    def __init__(self, fn, fid):
        self.fn = fn
        self.block = fn.blocks[0]
        self.idx = 0
        self.regs = {}
        self.prev = None
        self.res = None
        self.fid = fid
        self.normal = None

    def clone(self):
        f = Frame.__new__(Frame)
        f.fn, f.block, f.idx, f.prev, f.res, f.fid, f.normal = self.fn, self.block, self.idx, self.prev, self.res, self.fid, self.normal
        f.regs = dict(self.regs)
        return f


class State:
    def __init__(self):
        self.frames = []
        self.mem = {}
        self.pc = []
        self.inputs = []       # (kind, name, value-or-var)
        self.libm = []         # (fname, args tuple, result)
        self.next_id = 1000
        self.next_fid = 0
        self.site_forks = {}
        self.pending = []      # consecutive asserts not yet flushed: (label, cond)
        self.pending_pc_len = 0
        self.trace = []
        self.steps = 0
        self.path = ''

    def clone(self):
        s = State()
        s.frames = [f.clone() for f in self.frames]
        s.mem = {}
        for k, o in self.mem.items():
            if o.const:
                s.mem[k] = o
            else:
                o.shared = True
                s.mem[k] = o
        s.pc = list(self.pc)
        s.inputs = list(self.inputs)
        s.libm = list(self.libm)
        s.next_id = self.next_id
        s.next_fid = self.next_fid
        s.site_forks = dict(self.site_forks)
        s.pending = list(self.pending)
        s.pending_pc_len = self.pending_pc_len
        s.trace = list(self.trace)
        s.steps = self.steps
        s.path = self.path
        return s

    def wobj(self, oid):
        """object for writing (copy on write)"""
        o = self.mem[oid]
        if o.shared:
            o = o.clone()
            self.mem[oid] = o
        return o


class Query:
    def __init__(self, kind, labels, constraints, negs, inputs, libm, path):
        self.kind = kind            # 'obligation' | 'reach' | 'memory'
        self.labels = labels
        self.constraints = constraints   # list of z3 Bool (the path condition)
        self.negs = negs            # list of z3 Bool: violation iff pc /\ Or(negs)
        self.inputs = inputs
        self.libm = libm
        self.path = path


class Result:
    def __init__(self):
        self.queries = []
        self.paths = 0
        self.errors = []        # (path, message)
        self.warnings = set()
        self.functions = set()
        self.concrete_failures = []   # labels of asserts that are concretely false on a feasible path
        self.traces = []
        self.forks = 0
        self.dropped_on_bound = 0
        self.simplified = []     # labels of symbolic obligations reduced to `true` by z3's rewriter
        self.fork_solver_time = 0.0
        self.steps = 0


DEFAULT_OPTS = {
    'max_site_forks': 40,      # symbolic forks of one branch instruction within one frame along one path
    'max_paths': 20000,
    'max_steps': 5_000_000,    # per path
    'fork_timeout_ms': 3000,
    'fptoui_range': 8,
    'check_feasibility': True,
    'strict_undef': False,
}


class SymExec:
    def __init__(self, mod, mode='bv', opts=None, text=None, cuts=None):
        self.m = mod
        self.L = mod.layout
        self.mode = mode
        self.opts = dict(DEFAULT_OPTS)
        self.opts.update(opts or {})
        self.noreturn = scan_attrs(text, mod) if text else set()
        self.cuts = cuts or {}
        self.gids = {}
        self.res = Result()
        self.fresh = 0
        self.concrete_inputs = None
        self.uf = {}
        self.instr_ids = {}
        self.affine = {}     # id(offset expr) -> (expr, index expr (64-bit), scale, constant): offset = scale*index + constant

    # ------------------------------------------------------------------
    def fresh_name(self, base):
        self.fresh += 1
        return '%s!%d' % (base, self.fresh)

    def is_noreturn(self, name):
        if name in NORETURN_NAMES or name in self.noreturn:
            return True
        return any(name.startswith(p) for p in NORETURN_PREFIX)

    # ------------------------------------------------------------------
    # memory
    def gid(self, name):
        if name not in self.gids:
            self.gids[name] = len(self.gids) + 1
        return self.gids[name]

    def global_obj(self, st, name):
        oid = self.gid(name)
        if oid not in st.mem:
            g = self.m.globals[name]
            size = self.L.size(g.ty) if g.ty.kind != 'func' else 1
            o = Obj(size, name='@' + name, zero=True, const=g.const)
            if g.init is not None:
                self.init_cells(st, o, 0, g.init)
            else:
                self.res.warnings.add('external global @%s modelled as zero-initialised' % name)
            st.mem[oid] = o
        return oid

    def init_cells(self, st, o, off, v):
        t = v.ty
        k = v.kind
        if k in ('zero', 'undef'):
            return
        if k == 'struct':
            for i, a in enumerate(v.args):
                self.init_cells(st, o, off + self.L.field_offset(t, i), a)
            return
        if k == 'array':
            es = self.L.size(t.elem)
            for i, a in enumerate(v.args):
                self.init_cells(st, o, off + i * es, a)
            return
        if k == 'cstr':
            for i, b in enumerate(v.v):
                o.cells[off + i] = (b, 'i', 1)
            return
        val = self.const_val(st, v)
        self.put_scalar(o, off, t, val)

    def put_scalar(self, o, off, t, val):
        if t.kind == 'int':
            n = self.L.size(t)
            o.cells[off] = (val, 'i', n)
        elif t.kind == 'float':
            o.cells[off] = (val, 'f', t.bits // 8)
        elif t.kind == 'ptr':
            o.cells[off] = (val, 'p', 8)
        else:
            raise Unsupported('scalar store of %s' % t.s())

    def alloc(self, st, size, name='', zero=False):
        oid = st.next_id
        st.next_id += 1
        st.mem[oid] = Obj(size, name, zero)
        return oid

    def store(self, st, ptr, t, val):
        if t.kind in ('struct', 'array'):
            for off, et, ev in self.flatten(t, val):
                self.store(st, Ptr(ptr.obj, self.addoff(ptr.off, off)), et, ev)
            return
        if not isinstance(ptr, Ptr):
            raise Unsupported('store through non-pointer %r' % (ptr,))
        if ptr.obj == 0:
            raise Unsupported('store through null pointer')
        o = st.wobj(ptr.obj)
        if o.const:
            raise Unsupported('store to constant global')
        n = self.L.size(t)
        kind = {'int': 'i', 'float': 'f', 'ptr': 'p'}[t.kind]
        if isinstance(val, RealBits):
            if val.n != n:
                raise Unsupported('partial store of a moved floating-point value')
            val, kind = val.v, 'f'
        off = ptr.off
        if is_sym(off):
            cands = self.candidates(o, off, n, kind)
            if not cands:
                raise Unsupported('symbolic-offset store with no candidate cells in %s' % o.name)
            self.memory_query(st, off, cands, 'store ' + o.name)
            for c in cands:
                cv, ck, cn = o.cells[c]
                o.cells[c] = (self.ite(self.off_eq(off, c), val, cv, t), ck, cn)
            return
        if off < 0 or off + n > o.size:
            raise Unsupported('out-of-bounds store at %d (+%d) in %s of size %d' % (off, n, o.name, o.size))
        # drop overlapped cells
        for c in [c for c, (cv, ck, cn) in o.cells.items() if c < off + n and off < c + cn and c != off]:
            cv, ck, cn = o.cells[c]
            if c >= off and c + cn <= off + n:
                del o.cells[c]
            else:
                self.split_cell(o, c)
        if off in o.cells and o.cells[off][2] > n:
            self.split_cell(o, off)
        o.cells[off] = (val, kind, n)

    def candidates(self, o, off, n, kind):
        """cells a symbolic-offset access of n bytes may touch: same size, on the stride of an affine offset, and of the
        accessed kind whenever the object holds cells of that kind at all"""
        a = self.affine.get(off.get_id())
        aff = a if (a is not None and a[0].eq(off)) else None
        cands = []
        for c, (cv, ck, cn) in o.cells.items():
            if cn != n:
                continue
            if aff is not None and (c - aff[3]) % aff[2] != 0:
                continue
            cands.append(c)
        same = [c for c in cands if o.cells[c][1] == kind]
        if same:
            cands = same
        return sorted(cands)

    def split_cell(self, o, c):
        cv, ck, cn = o.cells[c]
        if ck != 'i':
            raise Unsupported('partial overwrite of a non-integer cell in %s' % o.name)
        del o.cells[c]
        for i in range(cn):
            if is_sym(cv):
                b = concretize(z3.simplify(z3.Extract(8 * i + 7, 8 * i, cv)))
            else:
                b = (cv >> (8 * i)) & 0xff
            o.cells[c + i] = (b, 'i', 1)

    def load(self, st, ptr, t):
        if t.kind in ('struct', 'array'):
            return self.unflatten(t, lambda off, et: self.load(st, Ptr(ptr.obj, self.addoff(ptr.off, off)), et))
        if not isinstance(ptr, Ptr):
            raise Unsupported('load through non-pointer %r' % (ptr,))
        if ptr.obj == 0:
            raise Unsupported('load through null pointer')
        o = st.mem[ptr.obj]
        n = self.L.size(t)
        off = ptr.off
        if is_sym(off):
            cands = self.candidates(o, off, n, {'int': 'i', 'float': 'f', 'ptr': 'p'}[t.kind])
            if not cands:
                if o.zero:
                    return self.zero_of(t)
                raise Unsupported('symbolic-offset load with no candidate cells in %s' % o.name)
            self.memory_query(st, off, cands, 'load ' + o.name)
            val = self.cell_as(o.cells[cands[-1]], t)
            for c in reversed(cands[:-1]):
                val = self.ite(self.off_eq(off, c), self.cell_as(o.cells[c], t), val, t)
            return val
        if off < 0 or off + n > o.size:
            raise Unsupported('out-of-bounds load at %d (+%d) in %s of size %d' % (off, n, o.name, o.size))
        c = o.cells.get(off)
        if c is not None and c[2] == n:
            return self.cell_as(c, t)
        # assemble from / extract out of integer cells
        if t.kind == 'int':
            parts = []
            ok = True
            for i in range(n):
                b = self.byte_at(o, off + i)
                if b is None:
                    ok = False
                    break
                parts.append(b)
            if ok:
                if all(not is_sym(p) for p in parts):
                    return mask(sum(p << (8 * i) for i, p in enumerate(parts)), t.bits)
                e = z3.Concat(*[bv(p, 8) for p in reversed(parts)]) if len(parts) > 1 else bv(parts[0], 8)
                if t.bits < 8 * n:
                    e = z3.Extract(t.bits - 1, 0, e)
                return concretize(z3.simplify(e))
        if t.kind in ('float', 'ptr'):
            # bytes written by memset / byte-wise copies: reassemble
            parts = [self.byte_at(o, off + i) for i in range(n)]
            if all(p_ is not None for p_ in parts):
                if all(not is_sym(p_) for p_ in parts):
                    bits = sum(p_ << (8 * i) for i, p_ in enumerate(parts))
                    if t.kind == 'ptr':
                        if bits == 0:
                            return Ptr(0, 0)
                    else:
                        d = self.bits_to_fp(bits, 8 * n)
                        return rlit(d) if self.mode == 'real' else d
                elif t.kind == 'float' and self.mode != 'real':
                    return self.bits_to_fp(z3.Concat(*[bv(p_, 8) for p_ in reversed(parts)]), 8 * n)
        covered = any(cc < off + n and off < cc + cn for cc, (cv, ck, cn) in o.cells.items())
        if covered:
            raise Unsupported('type-punned load of %s at %d in %s' % (t.s(), off, o.name))
        if o.zero:
            return self.zero_of(t)
        if self.opts['strict_undef']:
            raise Unsupported('load of uninitialised memory at %d in %s' % (off, o.name))
        self.res.warnings.add('uninitialised load in %s treated as arbitrary value' % o.name)
        v = self.fresh_val(t, 'undef')
        if not o.const:
            self.put_scalar(st.wobj(ptr.obj), off, t, v)
        return v

    def byte_at(self, o, a):
        for c, (cv, ck, cn) in o.cells.items():
            if c <= a < c + cn:
                if ck != 'i' or isinstance(cv, PInt):
                    return None
                i = a - c
                if is_sym(cv):
                    if z3.is_bool(cv):
                        cv = bv(cv, 8 * cn)
                    return concretize(z3.simplify(z3.Extract(8 * i + 7, 8 * i, cv)))
                return (cv >> (8 * i)) & 0xff
        return 0 if o.zero else None

    def cell_as(self, cell, t):
        cv, ck, cn = cell
        want = {'int': 'i', 'float': 'f', 'ptr': 'p'}[t.kind]
        if ck == want:
            if want == 'i' and t.bits == 1 and not is_sym(cv):
                return cv & 1
            if want == 'i' and t.bits == 1 and is_sym(cv) and not z3.is_bool(cv):
                return concretize(z3.simplify(z3.Extract(0, 0, cv) == z3.BitVecVal(1, 1)))
            if want == 'i' and is_sym(cv) and z3.is_bool(cv) and t.bits > 1:
                return bv(cv, t.bits)
            return cv
        if want == 'p' and ck == 'i':
            if isinstance(cv, PInt):
                return Ptr(cv.obj, cv.off)
            if cv == 0:
                return Ptr(0, 0)
        if want == 'i' and ck == 'p':
            if isinstance(cv, Ptr):
                return PInt(cv.obj, cv.off)
        if self.mode == 'real' and want == 'f' and ck == 'i' and not is_sym(cv) and not isinstance(cv, PInt):
            import struct as _st
            d = _st.unpack('<d', _st.pack('<Q', cv))[0] if cn == 8 else _st.unpack('<f', _st.pack('<I', cv & 0xffffffff))[0]
            return rlit(d)
        if self.mode == 'real' and want == 'i' and ck == 'f' and isinstance(cv, Fraction) and cv == 0:
            return 0
        if self.mode == 'real' and want == 'i' and ck == 'f' and t.bits == cn * 8:
            return RealBits(cv, cn)
        if self.mode != 'real' and want == 'i' and ck == 'f':
            return self.fp_to_bits(cv, cn * 8)
        if self.mode != 'real' and want == 'f' and ck == 'i':
            return self.bits_to_fp(cv, cn * 8)
        raise Unsupported('load of %s from a cell of kind %s' % (t.s(), ck))

    def fp_to_bits(self, v, bits):
        import struct
        if not is_sym(v):
            return struct.unpack('<Q', struct.pack('<d', v))[0] if bits == 64 else struct.unpack('<I', struct.pack('<f', v))[0]
        return z3.fpToIEEEBV(v)

    def bits_to_fp(self, v, bits):
        import struct
        if not is_sym(v):
            return struct.unpack('<d', struct.pack('<Q', v))[0] if bits == 64 else struct.unpack('<f', struct.pack('<I', v))[0]
        return z3.fpBVToFP(v, fp_sort(bits))

    def zero_of(self, t):
        if t.kind == 'int':
            return 0
        if t.kind == 'float':
            return Fraction(0) if self.mode == 'real' else 0.0
        if t.kind == 'ptr':
            return Ptr(0, 0)
        if t.kind in ('struct', 'array'):
            return self.unflatten(t, lambda off, et: self.zero_of(et))
        raise Unsupported('zero of %s' % t.s())

    def fresh_val(self, t, base):
        if t.kind == 'int':
            if t.bits == 1:
                return z3.Bool(self.fresh_name(base))
            return z3.BitVec(self.fresh_name(base), t.bits)
        if t.kind == 'float':
            if self.mode == 'real':
                return z3.Real(self.fresh_name(base))
            return z3.FP(self.fresh_name(base), fp_sort(t.bits))
        if t.kind == 'ptr':
            raise Unsupported('arbitrary pointer value (%s)' % base)
        if t.kind in ('struct', 'array'):
            return self.unflatten(t, lambda off, et: self.fresh_val(et, base))
        raise Unsupported('fresh value of %s' % t.s())

    def flatten(self, t, val):
        """[(offset, scalar type, value)]"""
        out = []
        if t.kind == 'struct':
            d = self.L.struct_def(t)
            for i, ft in enumerate(d.fields):
                base = self.L.field_offset(t, i)
                for off, et, ev in self.flatten(ft, val[i]):
                    out.append((base + off, et, ev))
        elif t.kind == 'array':
            es = self.L.size(t.elem)
            for i in range(t.n):
                for off, et, ev in self.flatten(t.elem, val[i]):
                    out.append((i * es + off, et, ev))
        else:
            out.append((0, t, val))
        return out

    def unflatten(self, t, leaf, base=0):
        if t.kind == 'struct':
            d = self.L.struct_def(t)
            return [self.unflatten(ft, leaf, base + self.L.field_offset(t, i)) for i, ft in enumerate(d.fields)]
        if t.kind == 'array':
            es = self.L.size(t.elem)
            return [self.unflatten(t.elem, leaf, base + i * es) for i in range(t.n)]
        return leaf(base, t)

    def addoff(self, off, k):
        if is_sym(off):
            r = concretize(z3.simplify(off + z3.BitVecVal(k, 64)))
            a = self.affine.get(off.get_id())
            if a is not None and a[0].eq(off) and is_sym(r):
                self.affine[r.get_id()] = (r, a[1], a[2], a[3] + k)
            return r
        return off + k

    def off_eq(self, off, c):
        """condition offset == c; for offsets of the form scale*index + const (inbounds GEP: no wrap-around) the comparison is
        made on the index, which keeps constant multiplications out of the solver"""
        a = self.affine.get(off.get_id())
        if a is not None and a[0].eq(off):
            _, idx, scale, const = a
            d = c - const
            if d % scale != 0:
                return z3.BoolVal(False)
            return idx == z3.BitVecVal(d // scale, 64)
        return off == z3.BitVecVal(c, 64)

    def memory_query(self, st, off, cands, what):
        ok = z3.Or(*[self.off_eq(off, c) for c in cands])
        ok = z3.simplify(ok)
        if z3.is_true(ok):
            return
        self.res.queries.append(Query('memory', ['in-bounds ' + what], list(st.pc), [z3.Not(ok)], list(st.inputs), list(st.libm), st.path))
        st.pc.append(ok)

    def ite(self, c, a, b, t):
        """merge two values of type t under z3 Bool c"""
        c = z3.simplify(c) if is_sym(c) else c
        if c is True or (is_sym(c) and z3.is_true(c)):
            return a
        if c is False or (is_sym(c) and z3.is_false(c)):
            return b
        if t.kind == 'int':
            if isinstance(a, PInt) or isinstance(b, PInt):
                if isinstance(a, PInt) and isinstance(b, PInt) and a.obj == b.obj:
                    return PInt(a.obj, self.ite(c, a.off, b.off, llir.I64), a.bits)
                raise Unsupported('merge of pointer-derived integers')
            if t.bits == 1:
                x, y = boolean(a), boolean(b)
                x = z3.BoolVal(x) if isinstance(x, bool) else x
                y = z3.BoolVal(y) if isinstance(y, bool) else y
                return concretize(z3.simplify(z3.If(c, x, y)))
            if not is_sym(a) and not is_sym(b) and a == b:
                return a
            return concretize(z3.simplify(z3.If(c, bv(a, t.bits), bv(b, t.bits))))
        if t.kind == 'float':
            if self.mode == 'real':
                if not is_sym(a) and not is_sym(b) and not isinstance(a, (XR, XInf)) and not isinstance(b, (XR, XInf)) and a == b:
                    return a
                if isinstance(a, XInf) and isinstance(b, XInf) and a.sign == b.sign:
                    return a
                if (isinstance(a, (XR, XInf)) or isinstance(b, (XR, XInf))) and not self.opts.get('xr_select'):
                    # merging a finite value with an infinity: fork instead (values stay plain reals or concrete infinities)
                    raise MergeFail()
                # opts['xr_select']: keep a symbolic EXTENDED real (XR): supported by comparisons, min/max, select, negation and fabs only
                return r_select(c, a, b)
            return z3.If(c, fpz3(a, t.bits), fpz3(b, t.bits))
        if t.kind == 'ptr':
            if isinstance(a, Ptr) and isinstance(b, Ptr) and a.obj == b.obj:
                return Ptr(a.obj, self.ite(c, a.off, b.off, llir.I64))
            raise MergeFail()
        if t.kind in ('struct', 'array'):
            fa = self.flatten(t, a)
            fb = self.flatten(t, b)
            merged = {off: self.ite(c, va, vb, et) for (off, et, va), (_, _, vb) in zip(fa, fb)}
            return self.unflatten(t, lambda off, et: merged[off])
        raise Unsupported('merge of %s' % t.s())

    # ------------------------------------------------------------------
    # constants and operands
    def const_val(self, st, v):
        k = v.kind
        t = v.ty
        if k == 'int':
            return v.v
        if k == 'float':
            if v.v is None:
                raise Unsupported('x87 constant')
            if self.mode == 'real':
                return rlit(v.v)
            return f32round(v.v) if t.bits == 32 else v.v
        if k == 'null':
            return Ptr(0, 0)
        if k in ('meta', 'blockaddr'):
            return None
        if k in ('undef', 'zero'):
            return self.zero_of(t)
        if k == 'global':
            if v.v in self.m.functions:
                return FuncPtr(v.v)
            g = self.m.globals.get(v.v)
            if g is None:
                raise Unsupported('unknown global @%s' % v.v)
            if getattr(g, 'alias', False):
                return self.const_val(st, g.init)
            return Ptr(self.global_obj(st, v.v), 0)
        if k == 'struct':
            return [self.const_val(st, a) for a in v.args]
        if k == 'array':
            return [self.const_val(st, a) for a in v.args]
        if k == 'cstr':
            return list(v.v)
        if k == 'cexpr':
            op = v.v
            a = v.args
            if op == 'getelementptr':
                base = self.const_val(st, a[0])
                return self.gep(base, v.extra['src'], [self.const_val(st, x) for x in a[1:]], [x.ty for x in a[1:]])
            if op in ('bitcast', 'addrspacecast'):
                return self.const_val(st, a[0])
            if op == 'ptrtoint':
                p = self.const_val(st, a[0])
                return PInt(p.obj, p.off, v.ty.bits) if isinstance(p, Ptr) else p
            if op == 'inttoptr':
                p = self.const_val(st, a[0])
                if isinstance(p, PInt):
                    return Ptr(p.obj, p.off)
                if p == 0:
                    return Ptr(0, 0)
                raise Unsupported('inttoptr of integer constant')
            if op in ('add', 'sub', 'mul', 'and', 'or', 'xor'):
                return int_binop(op, self.const_val(st, a[0]), self.const_val(st, a[1]), v.ty.bits)
            raise Unsupported('constant expression %s' % op)
        raise Unsupported('constant kind %s' % k)

    def val(self, st, fr, v):
        if v.kind == 'local':
            try:
                return fr.regs[v.v]
            except KeyError:
                raise Unsupported('use of undefined register %%%s in %s' % (v.v, fr.fn.name))
        return self.const_val(st, v)

    def gep(self, base, src, idxs, idx_tys):
        if isinstance(base, FuncPtr):
            raise Unsupported('gep on function pointer')
        if not isinstance(base, Ptr):
            raise Unsupported('gep on non-pointer %r' % (base,))
        off = base.off
        t = src
        first = True
        for ix, ity in zip(idxs, idx_tys):
            if first:
                scale = self.L.size(t)
                first = False
            elif t.kind == 'struct':
                off = self.addoff(off, self.L.field_offset(t, ix))
                t = self.L.struct_def(t).fields[ix]
                continue
            elif t.kind in ('array', 'vector'):
                t = t.elem
                scale = self.L.size(t)
            else:
                raise Unsupported('gep into %s' % t.s())
            if is_sym(ix):
                e = bv(ix, ity.bits)
                if ity.bits < 64:
                    e = z3.SignExt(64 - ity.bits, e)
                was_const = not is_sym(off)
                base_c = off if was_const else None
                off = concretize(z3.simplify(bv(off, 64) + e * z3.BitVecVal(scale, 64)))
                if was_const and is_sym(off) and scale > 0:
                    self.affine[off.get_id()] = (off, e, scale, base_c)
            else:
                sx = to_signed(ix, ity.bits)
                off = self.addoff(off, sx * scale)
        return Ptr(base.obj, off)

    # ------------------------------------------------------------------
    # feasibility
    def solver(self):
        if self.mode == 'real':
            s = z3.SolverFor('QF_NRA') if not self.uf else z3.Solver()
        else:
            s = z3.Solver()
        s.set('timeout', self.opts['fork_timeout_ms'])
        return s

    def feasible(self, st, cond):
        """sat / unknown -> True ; unsat -> False"""
        if not self.opts['check_feasibility']:
            return True
        t0 = time.time()
        try:
            s = self.solver()
            from .smt import slice_constraints
            rel, _ = slice_constraints(st.pc, [cond])
            for c in rel:
                s.add(c)
            s.add(cond)
            r = s.check()
        except z3.Z3Exception:
            r = z3.unknown
        self.res.fork_solver_time += time.time() - t0
        return r != z3.unsat

    # ------------------------------------------------------------------
    def run(self, entry, concrete_inputs=None):
        self.concrete_inputs = list(concrete_inputs) if concrete_inputs is not None else None
        fn = self.m.functions[entry]
        st = State()
        fr = Frame(fn, 0)
        st.next_fid = 1
        st.frames.append(fr)
        stack = [st]
        prog = os.environ.get('VERIF_PROGRESS')
        t_prog = time.time()
        while stack:
            st = stack.pop()
            if prog and time.time() - t_prog > float(prog):
                t_prog = time.time()
                sys.stderr.write('[irsym] paths=%d stack=%d queries=%d fork_solver=%.1fs errors=%d\n' % (
                    self.res.paths, len(stack), len(self.res.queries), self.res.fork_solver_time, len(self.res.errors)))
            if self.res.paths >= self.opts['max_paths']:
                self.res.errors.append((st.path, 'path bound exceeded (%d)' % self.opts['max_paths']))
                break
            try:
                self.exec_path(st, stack)
            except PathEnd:
                self.finish_path(st)
            except Unsupported as e:
                self.res.errors.append((st.path, 'unsupported: %s' % e))
                self.res.paths += 1
            except MergeFail:
                self.res.errors.append((st.path, 'unsupported: unmergeable select'))
                self.res.paths += 1
        return self.res

    def finish_path(self, st):
        self.flush_asserts(st)
        self.res.paths += 1
        self.res.steps += st.steps
        if self.concrete_inputs is not None:
            self.res.traces.append(st.trace)

    def flush_asserts(self, st):
        if not st.pending:
            return
        labels = [l for l, c in st.pending]
        negs = []
        for l, c in st.pending:
            negs.append(z3.Not(c) if is_sym(c) else z3.BoolVal(not c))
        base = st.pc[:st.pending_pc_len]
        self.res.queries.append(Query('obligation', labels, base, negs, list(st.inputs), list(st.libm), st.path))
        st.pending = []

    def add_pc(self, st, c):
        self.flush_asserts(st)
        st.pc.append(c)

    def fork(self, st, stack, cond, on_true, on_false, site):
        """cond: z3 Bool. on_true/on_false: callables applied to the (cloned) state"""
        self.flush_asserts(st)
        cond = z3.simplify(cond)
        if z3.is_true(cond):
            on_true(st)
            return st
        if z3.is_false(cond):
            on_false(st)
            return st
        n = st.site_forks.get(site, 0) + 1
        st.site_forks[site] = n
        if n > self.opts['max_site_forks']:
            if self.opts.get('drop_on_bound'):
                # stated bound (e.g. iterations of a memoryless rejection loop): deeper paths are outside the claim, counted in evidence
                self.res.dropped_on_bound += 1
                raise PathEnd()
            raise Unsupported('unwinding bound exceeded at %s (max_site_forks=%d)' % (site, self.opts['max_site_forks']))
        ncond = z3.simplify(z3.Not(cond))
        ft = self.feasible(st, cond)
        ff = self.feasible(st, ncond) if ft else True
        self.res.forks += 1
        if ft and ff:
            other = st.clone()
            other.pc.append(ncond)
            other.path += 'F'
            on_false(other)
            stack.append(other)
            st.pc.append(cond)
            st.path += 'T'
            on_true(st)
            return st
        if ft:
            st.pc.append(cond)
            on_true(st)
            return st
        st.pc.append(ncond)
        on_false(st)
        return st

    # ------------------------------------------------------------------
    def exec_path(self, st, stack):
        max_steps = self.opts['max_steps']
        while True:
            fr = st.frames[-1]
            ins = fr.block.instrs[fr.idx]
            fr.idx += 1
            st.steps += 1
            if st.steps > max_steps:
                raise Unsupported('step bound exceeded')
            op = ins.op
            h = getattr(self, 'op_' + op, None)
            if h is None:
                raise Unsupported('instruction %s' % op)
            try:
                h(st, fr, ins, stack)
            except Unsupported as e:
                if ' [at ' not in str(e):
                    raise Unsupported('%s [at %s, IR line %d]' % (e, fr.fn.name[:60], ins.line))
                raise

    def goto(self, st, fr, label):
        prev = fr.block.name
        blk = fr.fn.bmap[label]
        # evaluate phis in parallel
        vals = []
        for ins in blk.instrs:
            if ins.op != 'phi':
                break
            for v, lab in zip(ins.ops, ins.extra['labels']):
                if lab == prev:
                    vals.append((ins.res, self.val(st, fr, v)))
                    break
            else:
                raise Unsupported('phi without incoming edge')
        for r, v in vals:
            fr.regs[r] = v
        fr.prev = prev
        fr.block = blk
        fr.idx = len(vals)

    # -- arithmetic
    def _binop(self, st, fr, ins, stack):
        a = self.val(st, fr, ins.ops[0])
        b = self.val(st, fr, ins.ops[1])
        fr.regs[ins.res] = int_binop(ins.op, a, b, ins.ty.bits)

    op_add = op_sub = op_mul = op_and = op_or = op_xor = op_shl = op_lshr = op_ashr = op_udiv = op_urem = op_sdiv = op_srem = _binop

    def _fbin(self, st, fr, ins, stack):
        a = self.val(st, fr, ins.ops[0])
        b = self.val(st, fr, ins.ops[1])
        fr.regs[ins.res] = self.farith(ins.op, a, b, ins.ty.bits)

    op_fadd = op_fsub = op_fmul = op_fdiv = _fbin

    def farith(self, op, a, b, bits):
        if self.mode == 'real':
            return r_arith(op, a, b)
        return fp_arith(op, a, b, bits)

    def op_fneg(self, st, fr, ins, stack):
        a = self.val(st, fr, ins.ops[0])
        if self.mode == 'real':
            if isinstance(a, XInf):
                fr.regs[ins.res] = XInf(-a.sign)
            elif isinstance(a, XR):
                fr.regs[ins.res] = XR(a.ninf, a.pinf, -a.val)
            else:
                fr.regs[ins.res] = -a
        else:
            fr.regs[ins.res] = z3.fpNeg(a) if is_sym(a) else -a

    def op_icmp(self, st, fr, ins, stack):
        a = self.val(st, fr, ins.ops[0])
        b = self.val(st, fr, ins.ops[1])
        t = ins.ops[0].ty
        pred = ins.extra['pred']
        if t.kind == 'ptr':
            fr.regs[ins.res] = self.ptr_cmp(pred, a, b)
        else:
            fr.regs[ins.res] = icmp(pred, a, b, t.bits)

    def ptr_cmp(self, pred, a, b):
        if isinstance(a, FuncPtr) or isinstance(b, FuncPtr):
            same = isinstance(a, FuncPtr) and isinstance(b, FuncPtr) and a.name == b.name
            if pred == 'eq':
                return 1 if same else 0
            if pred == 'ne':
                return 0 if same else 1
            raise Unsupported('ordering of function pointers')
        if a.obj == b.obj:
            return icmp(pred, a.off, b.off, 64)
        if pred == 'eq':
            return 0
        if pred == 'ne':
            return 1
        raise Unsupported('relational comparison of pointers into different objects')

    def op_fcmp(self, st, fr, ins, stack):
        a = self.val(st, fr, ins.ops[0])
        b = self.val(st, fr, ins.ops[1])
        if self.mode == 'real':
            fr.regs[ins.res] = r_fcmp(ins.extra['pred'], a, b)
        else:
            r = fp_fcmp(ins.extra['pred'], a, b, ins.ops[0].ty.bits)
            fr.regs[ins.res] = concretize(z3.simplify(r)) if is_sym(r) else r

    def op_select(self, st, fr, ins, stack):
        c = self.val(st, fr, ins.ops[0])
        if not is_sym(c):
            fr.regs[ins.res] = self.val(st, fr, ins.ops[1 if c & 1 else 2])
            return
        a = self.val(st, fr, ins.ops[1])
        b = self.val(st, fr, ins.ops[2])
        cb = boolean(c)
        try:
            fr.regs[ins.res] = self.ite(cb, a, b, ins.ty)
        except MergeFail:
            res = ins.res

            def t_(s):
                s.frames[-1].regs[res] = a

            def f_(s):
                s.frames[-1].regs[res] = b
            self.fork(st, stack, cb, t_, f_, (fr.fid, id(ins)))

    def _cast(self, st, fr, ins, stack):
        v = self.val(st, fr, ins.ops[0])
        fr.regs[ins.res] = int_cast(ins.op, v, ins.ops[0].ty.bits, ins.ty.bits)

    op_trunc = op_zext = op_sext = _cast

    def op_fpext(self, st, fr, ins, stack):
        v = self.val(st, fr, ins.ops[0])
        if self.mode == 'real' or not is_sym(v):
            fr.regs[ins.res] = v
        else:
            fr.regs[ins.res] = z3.fpFPToFP(RNE, v, fp_sort(ins.ty.bits))

    def op_fptrunc(self, st, fr, ins, stack):
        v = self.val(st, fr, ins.ops[0])
        if self.mode == 'real':
            fr.regs[ins.res] = v
        elif not is_sym(v):
            fr.regs[ins.res] = f32round(v)
        else:
            fr.regs[ins.res] = z3.fpFPToFP(RNE, v, fp_sort(ins.ty.bits))

    def _fptoint(self, st, fr, ins, stack):
        v = self.val(st, fr, ins.ops[0])
        bits = ins.ty.bits
        signed = ins.op == 'fptosi'
        if not is_sym(v):
            if isinstance(v, (XInf, XR)) or (isinstance(v, float) and (math.isinf(v) or math.isnan(v))):
                raise Unsupported('fp-to-int of non-finite value')
            fr.regs[ins.res] = mask(int(math.trunc(v)), bits)
            return
        if self.mode == 'fp':
            r = z3.fpToSBV(z3.RTZ(), v, z3.BitVecSort(bits)) if signed else z3.fpToUBV(z3.RTZ(), v, z3.BitVecSort(bits))
            fr.regs[ins.res] = r
            return
        # real mode: enumerate small non-negative results by forking (stated bound), anything else is reported
        rng = self.opts['fptoui_range']
        res = ins.res
        x = rz3(v)
        self.flush_asserts(st)
        for k in range(rng):
            cond = z3.And(x > -1, x < 1) if k == 0 else z3.And(x >= k, x < k + 1)
            if self.feasible(st, cond):
                o = st.clone()
                o.pc.append(cond)
                o.path += 'i%d' % k
                o.frames[-1].regs[res] = k
                stack.append(o)
                self.res.forks += 1
        rest = z3.Or(x >= rng, x <= -1)
        if self.feasible(st, rest):
            self.res.errors.append((st.path, 'unsupported: fp-to-int result outside the enumerated range [0,%d) in real mode' % rng))
        raise _SwitchState()

    op_fptoui = op_fptosi = _fptoint

    def _inttofp(self, st, fr, ins, stack):
        v = self.val(st, fr, ins.ops[0])
        sb = ins.ops[0].ty.bits
        signed = ins.op == 'sitofp'
        if not is_sym(v):
            iv = to_signed(v, sb) if signed else v
            if self.mode == 'real':
                fr.regs[ins.res] = Fraction(iv)
            else:
                fr.regs[ins.res] = f32round(float(iv)) if ins.ty.bits == 32 else float(iv)
            return
        if self.mode == 'real':
            fr.regs[ins.res] = z3.ToReal(z3.BV2Int(bv(v, sb), signed))
        else:
            x = bv(v, sb)
            fr.regs[ins.res] = z3.fpSignedToFP(RNE, x, fp_sort(ins.ty.bits)) if signed else z3.fpUnsignedToFP(RNE, x, fp_sort(ins.ty.bits))

    op_uitofp = op_sitofp = _inttofp

    def op_ptrtoint(self, st, fr, ins, stack):
        p = self.val(st, fr, ins.ops[0])
        if isinstance(p, Ptr):
            fr.regs[ins.res] = PInt(p.obj, p.off, ins.ty.bits)
        else:
            raise Unsupported('ptrtoint of %r' % (p,))

    def op_inttoptr(self, st, fr, ins, stack):
        v = self.val(st, fr, ins.ops[0])
        if isinstance(v, PInt):
            fr.regs[ins.res] = Ptr(v.obj, v.off)
        elif not is_sym(v) and v == 0:
            fr.regs[ins.res] = Ptr(0, 0)
        else:
            raise Unsupported('inttoptr of a non-pointer-derived integer')

    def op_bitcast(self, st, fr, ins, stack):
        v = self.val(st, fr, ins.ops[0])
        s, d = ins.ops[0].ty, ins.ty
        if s.kind == 'ptr' and d.kind == 'ptr':
            fr.regs[ins.res] = v
        elif self.mode != 'real' and s.kind == 'float' and d.kind == 'int':
            fr.regs[ins.res] = self.fp_to_bits(v, s.bits)
        elif self.mode != 'real' and s.kind == 'int' and d.kind == 'float':
            fr.regs[ins.res] = self.bits_to_fp(v, d.bits)
        else:
            raise Unsupported('bitcast %s -> %s' % (s.s(), d.s()))

    op_addrspacecast = op_bitcast

    def op_freeze(self, st, fr, ins, stack):
        fr.regs[ins.res] = self.val(st, fr, ins.ops[0])

    # -- memory
    def op_alloca(self, st, fr, ins, stack):
        t = ins.extra['alloc_ty']
        n = 1
        if ins.ops:
            n = self.val(st, fr, ins.ops[0])
            if is_sym(n):
                raise Unsupported('dynamic alloca')
        oid = self.alloc(st, self.L.size(t) * n, '%s:%%%s' % (fr.fn.name[:40], ins.res))
        fr.regs[ins.res] = Ptr(oid, 0)

    def op_load(self, st, fr, ins, stack):
        p = self.val(st, fr, ins.ops[0])
        fr.regs[ins.res] = self.load(st, p, ins.ty)

    def op_store(self, st, fr, ins, stack):
        v = self.val(st, fr, ins.ops[0])
        p = self.val(st, fr, ins.ops[1])
        self.store(st, p, ins.ops[0].ty, v)

    def op_getelementptr(self, st, fr, ins, stack):
        base = self.val(st, fr, ins.ops[0])
        idx = [self.val(st, fr, a) for a in ins.ops[1:]]
        fr.regs[ins.res] = self.gep(base, ins.extra['src'], idx, [a.ty for a in ins.ops[1:]])

    def op_extractvalue(self, st, fr, ins, stack):
        v = self.val(st, fr, ins.ops[0])
        for ix in ins.extra['idx']:
            v = v[ix]
        fr.regs[ins.res] = v

    def op_insertvalue(self, st, fr, ins, stack):
        agg = _copy_agg(self.val(st, fr, ins.ops[0]))
        v = self.val(st, fr, ins.ops[1])
        cur = agg
        for ix in ins.extra['idx'][:-1]:
            cur = cur[ix]
        cur[ins.extra['idx'][-1]] = v
        fr.regs[ins.res] = agg

    # -- control
    def op_br(self, st, fr, ins, stack):
        self.goto(st, fr, ins.extra['dest'])

    def op_condbr(self, st, fr, ins, stack):
        c = self.val(st, fr, ins.ops[0])
        if not is_sym(c):
            self.goto(st, fr, ins.extra['t'] if c & 1 else ins.extra['f'])
            return
        t, f = ins.extra['t'], ins.extra['f']

        def t_(s):
            self.goto(s, s.frames[-1], t)

        def f_(s):
            self.goto(s, s.frames[-1], f)
        self.fork(st, stack, boolean(c), t_, f_, (fr.fid, id(ins)))

    def op_switch(self, st, fr, ins, stack):
        v = self.val(st, fr, ins.ops[0])
        bits = ins.ops[0].ty.bits
        if not is_sym(v):
            for cv, lab in ins.extra['cases']:
                if cv == v:
                    self.goto(st, fr, lab)
                    return
            self.goto(st, fr, ins.extra['default'])
            return
        # fork per case on clones; continue on the default
        x = bv(v, bits)
        self.flush_asserts(st)
        for cv, lab in ins.extra['cases']:
            cond = z3.simplify(x == z3.BitVecVal(cv, bits))
            if self.feasible(st, cond):
                o = st.clone()
                o.pc.append(cond)
                o.path += 'c%d' % cv
                self.goto(o, o.frames[-1], lab)
                stack.append(o)
                self.res.forks += 1
            st.pc.append(z3.simplify(z3.Not(cond)))
        if not self.feasible(st, z3.BoolVal(True)):
            raise _SwitchState()
        self.goto(st, fr, ins.extra['default'])

    def op_ret(self, st, fr, ins, stack):
        rv = self.val(st, fr, ins.ops[0]) if ins.ops else None
        st.frames.pop()
        if not st.frames:
            raise PathEnd()
        caller = st.frames[-1]
        if fr.res is not None:
            caller.regs[fr.res] = rv
        if fr.normal is not None:
            self.goto(st, caller, fr.normal)

    def op_unreachable(self, st, fr, ins, stack):
        self.record_ub(st, 'reached llvm unreachable in %s' % fr.fn.name)
        raise PathEnd()

    def record_ub(self, st, what):
        self.flush_asserts(st)
        self.res.queries.append(Query('ub', [what], list(st.pc), [z3.BoolVal(True)], list(st.inputs), list(st.libm), st.path))

    def op_landingpad(self, st, fr, ins, stack):
        raise PathEnd()

    op_resume = op_landingpad

    def op_fence(self, st, fr, ins, stack):
        pass

    def op_atomicrmw(self, st, fr, ins, stack):
        p = self.val(st, fr, ins.ops[0])
        v = self.val(st, fr, ins.ops[1])
        old = self.load(st, p, ins.ty)
        rmw = ins.extra['rmw']
        if rmw == 'xchg':
            new = v
        elif rmw in ('add', 'sub', 'and', 'or', 'xor'):
            new = int_binop(rmw, old, v, ins.ty.bits)
        else:
            raise Unsupported('atomicrmw ' + rmw)
        self.store(st, p, ins.ty, new)
        fr.regs[ins.res] = old

    # -- calls
    def op_call(self, st, fr, ins, stack):
        callee = ins.extra['callee']
        if callee.kind == 'local':
            target = self.val(st, fr, callee)
            if not isinstance(target, FuncPtr):
                raise Unsupported('indirect call through %r' % (target,))
            name = target.name
        elif callee.kind == 'global':
            name = callee.v
        elif callee.kind == 'cexpr' and callee.v == 'bitcast' and callee.args[0].kind == 'global':
            name = callee.args[0].v
        else:
            raise Unsupported('indirect call')
        import re
        for pat, repl in self.cuts.items():
            if re.fullmatch(pat, name):
                name = repl
                break
        args = [self.val(st, fr, a) for a in ins.ops]
        normal = ins.extra.get('normal') if ins.op == 'invoke' else None
        fn = self.m.functions.get(name)
        if fn is not None and not fn.is_decl and not name.startswith('llvm.'):
            nf = Frame(fn, st.next_fid)
            st.next_fid += 1
            for (pt, pn), a in zip(fn.params, args):
                nf.regs[pn] = a
            nf.res = ins.res if ins.ty.kind != 'void' else None
            nf.normal = normal
            self.res.functions.add(name)
            st.frames.append(nf)
            if len(st.frames) > 200:
                raise Unsupported('call depth exceeded')
            return
        r = self.external(st, fr, ins, name, args, stack)
        if ins.res is not None and ins.ty.kind != 'void':
            fr2 = st.frames[-1]
            fr2.regs[ins.res] = r
        if normal is not None:
            self.goto(st, st.frames[-1], normal)

    op_invoke = op_call

    def external(self, st, fr, ins, name, args, stack):
        if name.startswith('llvm.'):
            return self.intrinsic(st, fr, ins, name, args, stack)
        if name.startswith('verif_'):
            return self.verif_api(st, fr, ins, name, args, stack)
        if self.is_noreturn(name):
            raise PathEnd()
        base = name[:-1] if (name.endswith('f') and (name[:-1] in LIBM1 or name[:-1] in LIBM2)) else name
        if base in LIBM1 or base in LIBM2:
            return self.libm(st, base, args, ins.ty.bits)
        if name in ('sqrt', 'sqrtf'):
            return self.fsqrt(st, args[0], ins.ty.bits)
        if name in ('fabs', 'fabsf'):
            return self.fabs(args[0], ins.ty)
        if name in ('fma', 'fmaf'):
            return self.fma(args, ins.ty.bits)
        if name in ('fmin', 'fminf', 'fmax', 'fmaxf'):
            return self.fminmax(name.startswith('fmin'), args[0], args[1], ins.ty)
        if name in ('floor', 'ceil', 'floorf', 'ceilf', 'trunc', 'round', 'rint', 'nearbyint'):
            return self.fround(name.rstrip('f') if name not in ('rint',) else 'rint', args[0], ins.ty)
        if name == 'copysign':
            return self.copysign(args[0], args[1], ins.ty)
        if name in ('memcpy', 'memmove'):
            self.memcpy(st, args[0], args[1], args[2])
            return args[0]
        if name == 'memset':
            self.memset(st, args[0], args[1], args[2])
            return args[0]
        if name in ('_Znwm', '_Znam', 'malloc', '__cxa_allocate_exception'):
            n = args[0]
            if is_sym(n):
                raise Unsupported('symbolic allocation size')
            return Ptr(self.alloc(st, n, 'heap'), 0)
        if name == 'calloc':
            return Ptr(self.alloc(st, args[0] * args[1], 'heap', zero=True), 0)
        if name in ('_ZdlPv', '_ZdaPv', 'free', '__cxa_free_exception', '_ZdlPvm', '_ZdaPvm', '__cxa_atexit'):
            return 0
        if name == 'sincos':
            s = self.libm(st, 'sin', [args[0]], 64)
            c = self.libm(st, 'cos', [args[0]], 64)
            self.store(st, args[1], llir.DOUBLE, s)
            self.store(st, args[2], llir.DOUBLE, c)
            return None
        # unknown external: arbitrary result, no side effects
        self.res.warnings.add('external @%s modelled as havoc stub (arbitrary result, no side effects)' % name)
        if ins.ty.kind == 'void':
            return None
        return self.fresh_val(ins.ty, 'ext_' + name[:20])

    # -- verif API
    def verif_api(self, st, fr, ins, name, args, stack):
        if name.startswith('verif_nondet'):
            kind = name[len('verif_nondet_'):]
            label = self.cstring(st, args[0])
            k = len(st.inputs)
            if label.startswith('P:') and label in self.opts.get('params', {}):
                v = self.from_bits(kind, self.opts['params'][label])
                st.inputs.append((kind, label, v))
                return v
            if self.concrete_inputs is not None:
                raw = self.concrete_inputs[k] if k < len(self.concrete_inputs) else 0
                v = self.from_bits(kind, raw)
                st.inputs.append((kind, label, v))
                return v
            nm = 'in%d_%s' % (k, label)
            if kind == 'u32':
                v = z3.BitVec(nm, 32)
            elif kind == 'u64':
                v = z3.BitVec(nm, 64)
            elif kind == 'bool':
                b = z3.Bool(nm)
                st.inputs.append((kind, label, b))
                return z3.If(b, z3.BitVecVal(1, 32), z3.BitVecVal(0, 32))
            elif kind == 'f64':
                v = z3.Real(nm) if self.mode == 'real' else z3.FP(nm, z3.Float64())
            elif kind == 'f32':
                v = z3.Real(nm) if self.mode == 'real' else z3.FP(nm, z3.Float32())
            else:
                raise Unsupported(name)
            st.inputs.append((kind, label, v))
            return v
        if name == 'verif_assume':
            c = args[0]
            if not is_sym(c):
                if self.concrete_inputs is not None and c == 0:
                    st.trace.append('assume 0')
                if c == 0:
                    raise PathEnd()
                return None
            cond = z3.simplify(bv(c, 32) != 0)
            if z3.is_false(cond):
                raise PathEnd()
            if not z3.is_true(cond):
                self.add_pc(st, cond)
            return None
        if name == 'verif_assert':
            c = args[0]
            label = self.cstring(st, args[1])
            if self.concrete_inputs is not None:
                st.trace.append('assert %x' % (1 if c != 0 else 0))
                return None
            if is_sym(c):
                raw = bv(c, 32) != 0
                cond = z3.simplify(raw)
                if z3.is_true(cond):
                    self.res.simplified.append(label)
                    if self.opts.get('trust_simplifier', False):
                        return None
                    # keep the obligation as an explicit solver query on the un-rewritten formula
                    cond = raw
            else:
                if c != 0:
                    return None
                cond = False
            if not st.pending:
                st.pending_pc_len = len(st.pc)
            st.pending.append((label, cond))
            if self.opts.get('separate_asserts'):
                self.flush_asserts(st)
                if is_sym(cond):
                    st.pc.append(cond)
            return None
        if name == 'verif_reach':
            label = self.cstring(st, args[0])
            if self.concrete_inputs is not None:
                st.trace.append('reach 1')
                return None
            self.flush_asserts(st)
            self.res.queries.append(Query('reach', [label], list(st.pc), [z3.BoolVal(True)], list(st.inputs), list(st.libm), st.path))
            return None
        if name in ('verif_observe_u64', 'verif_observe_f64'):
            if self.concrete_inputs is not None:
                v = args[0]
                if name.endswith('f64'):
                    import struct
                    v = struct.unpack('<Q', struct.pack('<d', float(v)))[0]
                st.trace.append('obs %x' % v)
            return None
        if name == 'verif_close' and self.mode == 'real':
            a, b, scale = args
            if any(isinstance(v, (XInf, XR)) for v in (a, b, scale)):
                raise Unsupported('verif_close on a possibly infinite value')
            sa = self.fabs(scale, llir.DOUBLE)
            d = self.fabs(self.farith('fsub', a, b, 64), llir.DOUBLE)
            if all(isinstance(v, Fraction) for v in (sa, d)):
                return 1 if d <= Fraction(1, 10**7) * max(sa, 1) else 0
            saz, dz = rz3(sa), rz3(d)
            lim = z3.If(saz > 1, saz, z3.RealVal(1)) * z3.RealVal('1/10000000')
            return z3.If(dz <= lim, z3.BitVecVal(1, 32), z3.BitVecVal(0, 32))
        if name in ('verif_approx_eq', 'verif_close'):
            a, b, scale = args
            if self.mode == 'real':
                from .symval import r_eq
                r = r_eq(a, b)
                if r is True:
                    return 1
                if r is False:
                    return 0
                return z3.If(r, z3.BitVecVal(1, 32), z3.BitVecVal(0, 32))
            # IEEE modes: same tolerance as the native replay
            s_ = self.fabs(scale, llir.DOUBLE)
            one = 1.0
            c1 = fp_fcmp('ogt', s_, one, 64)
            s2 = self.ite(boolean(c1), s_, one, llir.DOUBLE) if is_sym(c1) else (s_ if c1 else one)
            d = self.fabs(self.farith('fsub', a, b, 64), llir.DOUBLE)
            lim = self.farith('fmul', 1e-7, s2, 64)
            r1 = fp_fcmp('oeq', a, b, 64)
            r2 = fp_fcmp('ole', d, lim, 64)
            if not is_sym(r1) and not is_sym(r2):
                return 1 if (r1 or r2) else 0
            rb = z3.Or(boolean(r1) if is_sym(r1) else z3.BoolVal(bool(r1)), boolean(r2) if is_sym(r2) else z3.BoolVal(bool(r2)))
            return z3.If(rb, z3.BitVecVal(1, 32), z3.BitVecVal(0, 32))
        if name == 'verif_known_region':
            label = self.cstring(st, args[0])
            c = args[1]
            if self.concrete_inputs is not None:
                st.trace.append('known %s %x' % (label, 1 if (c != 0) else 0))
                return 0
            if label in self.opts.get('exclude_known', ()):
                return c
            return 0
        if name == 'verif_throw_hook':
            return None
        if name == 'verif_validate_fail':
            hook = self.m.functions.get('verif_throw_hook')
            if hook is not None and not hook.is_decl:
                raise Unsupported('verif_throw_hook defined by harness: not supported in engine B')
            raise PathEnd()
        raise Unsupported('verif api ' + name)

    def from_bits(self, kind, raw):
        import struct
        if kind == 'u32':
            return raw & 0xffffffff
        if kind == 'u64':
            return raw & ((1 << 64) - 1)
        if kind == 'bool':
            return raw & 1
        if kind == 'f64':
            d = struct.unpack('<d', struct.pack('<Q', raw & ((1 << 64) - 1)))[0]
            return rlit(d) if self.mode == 'real' else d
        if kind == 'f32':
            d = struct.unpack('<f', struct.pack('<I', raw & 0xffffffff))[0]
            return rlit(d) if self.mode == 'real' else d
        raise Unsupported(kind)

    def cstring(self, st, p):
        if not isinstance(p, Ptr) or p.obj == 0:
            return '?'
        o = st.mem[p.obj]
        out = []
        off = p.off
        while True:
            c = o.cells.get(off)
            if c is None or c[0] == 0 or is_sym(c[0]):
                break
            out.append(chr(c[0]))
            off += 1
        return ''.join(out)

    # -- math
    def uf_app(self, st, name, args, bits):
        sort = z3.RealSort() if self.mode == 'real' else fp_sort(bits)
        key = (name, len(args), bits if self.mode != 'real' else 0)
        if key not in self.uf:
            self.uf[key] = z3.Function('%s_%s' % (name, 'R' if self.mode == 'real' else 'F%d' % bits), *([sort] * len(args) + [sort]))
        zargs = [rz3(a) if self.mode == 'real' else fpz3(a, bits) for a in args]
        r = self.uf[key](*zargs)
        st.libm.append((name, tuple(zargs), r))
        return r

    def libm(self, st, name, args, bits):
        if all(not is_sym(a) for a in args):
            if self.mode != 'real':
                try:
                    r = getattr(math, name)(*args)
                except (ValueError, OverflowError):
                    r = math.nan
                return f32round(r) if bits == 32 else r
            # real mode: exact special values only
            a = args[0]
            if isinstance(a, Fraction):
                if name == 'exp' and a == 0:
                    return Fraction(1)
                if name == 'log' and a == 1:
                    return Fraction(0)
                if name in ('sin', 'tan', 'atan', 'sinh', 'tanh', 'asin', 'expm1', 'log1p') and a == 0:
                    return Fraction(0)
                if name in ('cos', 'cosh') and a == 0:
                    return Fraction(1)
                if name == 'pow' and isinstance(args[1], Fraction) and args[1].denominator == 1 and abs(args[1]) <= 16:
                    return a ** int(args[1]) if (a != 0 or args[1] > 0) else Fraction(1)
        if self.mode == 'real' and any(isinstance(a, (XInf, XR)) for a in args):
            raise Unsupported('libm %s on a possibly infinite value' % name)
        return self.uf_app(st, name, args, bits)

    def fsqrt(self, st, x, bits):
        if self.mode == 'real':
            if isinstance(x, Fraction):
                # exact rational square roots stay concrete
                n, d = x.numerator, x.denominator
                if n >= 0:
                    rn, rd = math.isqrt(n), math.isqrt(d)
                    if rn * rn == n and rd * rd == d:
                        return Fraction(rn, rd)
            if isinstance(x, (XInf, XR)):
                raise Unsupported('sqrt of possibly infinite value')
            s = z3.Real(self.fresh_name('sqrt'))
            xz = rz3(x)
            self.add_pc(st, z3.Implies(xz >= 0, z3.And(s >= 0, s * s == xz)))
            return s
        if not is_sym(x):
            r = math.sqrt(x) if x >= 0 else math.nan
            return f32round(r) if bits == 32 else r
        return z3.fpSqrt(RNE, x)

    def fabs(self, x, t):
        if self.mode == 'real':
            if isinstance(x, Fraction):
                return abs(x)
            if isinstance(x, XInf):
                return XInf(1)
            if isinstance(x, XR):
                return XR(simp(z3.Or(_b(x.pinf), _b(x.ninf))), False, z3.If(x.val >= 0, x.val, -x.val))
            return z3.If(x >= 0, x, -x)
        if not is_sym(x):
            return abs(x)
        return z3.fpAbs(x)

    def fma(self, args, bits):
        a, b, c = args
        if self.mode == 'real':
            return r_arith('fadd', r_arith('fmul', a, b), c)
        if all(not is_sym(v) for v in args):
            # exact fma via Fractions
            if any(math.isinf(v) or math.isnan(v) for v in args):
                return a * b + c
            r = float(Fraction(a) * Fraction(b) + Fraction(c))
            return f32round(r) if bits == 32 else r
        return z3.fpFMA(RNE, fpz3(a, bits), fpz3(b, bits), fpz3(c, bits))

    def fmuladd(self, args, bits):
        # clang -ffp-contract=on emits llvm.fmuladd; x86-64 without FMA lowers it to mul+add, with FMA to fma.
        # Real mode: identical.  fp mode: modelled as fused (matches -march with FMA); translator validation flags mismatch.
        return self.fma(args, bits)

    def fminmax(self, is_min, a, b, t):
        if self.mode == 'real':
            lt = r_lt(a, b) if is_min else r_lt(b, a)
            if lt is True:
                return a
            if lt is False:
                return b
            if (isinstance(a, (XR, XInf)) or isinstance(b, (XR, XInf))) and not self.opts.get('xr_select'):
                raise Unsupported('min/max of a symbolic value with an infinity in real mode')
            return r_select(lt, a, b)
        if not is_sym(a) and not is_sym(b):
            if math.isnan(a):
                return b
            if math.isnan(b):
                return a
            return min(a, b) if is_min else max(a, b)
        x, y = fpz3(a, t.bits), fpz3(b, t.bits)
        return z3.fpMin(x, y) if is_min else z3.fpMax(x, y)

    def fround(self, how, x, t):
        if self.mode == 'real':
            if isinstance(x, Fraction):
                if how == 'floor':
                    return Fraction(math.floor(x))
                if how == 'ceil':
                    return Fraction(math.ceil(x))
                if how == 'trunc':
                    return Fraction(math.trunc(x))
                raise Unsupported('rounding %s of constant' % how)
            if isinstance(x, (XInf, XR)):
                raise Unsupported('rounding of possibly infinite value')
            fl = z3.ToReal(z3.ToInt(x))
            if how == 'floor':
                return fl
            if how == 'ceil':
                return -z3.ToReal(z3.ToInt(-x))
            if how == 'trunc':
                return z3.If(x >= 0, fl, -z3.ToReal(z3.ToInt(-x)))
            raise Unsupported('rounding %s in real mode' % how)
        if not is_sym(x):
            if math.isinf(x) or math.isnan(x):
                return x
            r = {'floor': math.floor, 'ceil': math.ceil, 'trunc': math.trunc, 'round': round}.get(how)
            if r is None:
                raise Unsupported('rounding %s' % how)
            return float(r(x))
        rm = {'floor': z3.RTN(), 'ceil': z3.RTP(), 'trunc': z3.RTZ(), 'round': z3.RNA(), 'rint': z3.RNE(), 'nearbyint': z3.RNE()}[how]
        return z3.fpRoundToIntegral(rm, x)

    def copysign(self, a, b, t):
        if self.mode == 'real':
            m = self.fabs(a, t)
            if isinstance(b, Fraction):
                return m if b >= 0 else self.farith('fsub', Fraction(0), m, 64)
            if isinstance(b, XInf):
                return m if b.sign > 0 else self.farith('fsub', Fraction(0), m, 64)
            if isinstance(m, (XInf, XR)) or isinstance(b, XR):
                raise Unsupported('copysign with infinities')
            mz = rz3(m)
            return z3.If(rz3(b) >= 0, mz, -mz)
        if not is_sym(a) and not is_sym(b):
            return math.copysign(a, b)
        x, y = fpz3(a, t.bits), fpz3(b, t.bits)
        return z3.If(z3.fpIsNegative(y), z3.fpNeg(z3.fpAbs(x)), z3.fpAbs(x))

    def memcpy(self, st, dst, src, n):
        if is_sym(n):
            raise Unsupported('memcpy with symbolic length')
        if n == 0:
            return
        if is_sym(dst.off) or is_sym(src.off):
            return self.memcpy_symbolic(st, dst, src, n)
        so = st.mem[src.obj]
        do = st.wobj(dst.obj)
        if do.const:
            raise Unsupported('memcpy into constant')
        if src.off < 0 or src.off + n > so.size or dst.off < 0 or dst.off + n > do.size:
            raise Unsupported('out-of-bounds memcpy (%d bytes: src %s@%d size %d, dst %s@%d size %d)' % (n, so.name, src.off, so.size, do.name, dst.off, do.size))
        # cells partially inside the source range are split into bytes first (on a private copy of the source)
        part = [c for c, (cv, ck, cn) in so.cells.items() if c < src.off + n and src.off < c + cn and (c < src.off or c + cn > src.off + n)]
        if part:
            so = so.clone()
            so.const = False
            st.mem[src.obj] = so
            if src.obj == dst.obj:
                do = so
            for c in part:
                self.split_cell(so, c)
        moved = [(c - src.off, so.cells[c]) for c in so.cells if src.off <= c < src.off + n]
        for c in [c for c, (cv, ck, cn) in do.cells.items() if c < dst.off + n and dst.off < c + cn]:
            cv, ck, cn = do.cells[c]
            if c >= dst.off and c + cn <= dst.off + n:
                del do.cells[c]
            else:
                self.split_cell(do, c)
                for i in range(cn):
                    if dst.off <= c + i < dst.off + n:
                        del do.cells[c + i]
        covered = 0
        for rel, cell in moved:
            do.cells[dst.off + rel] = cell
            covered += cell[2]
        if covered < n:
            if so.zero:
                # uncovered source bytes are zero: write explicit zero bytes unless the destination default is zero too
                if not do.zero:
                    have = set()
                    for rel, cell in moved:
                        have.update(range(rel, rel + cell[2]))
                    for i in range(n):
                        if i not in have:
                            do.cells[dst.off + i] = (0, 'i', 1)
            elif not do.zero:
                pass  # uninitialised bytes stay uninitialised
            else:
                self.res.warnings.add('memcpy of partly uninitialised source into zero-default object %s' % do.name)

    def memcpy_symbolic(self, st, dst, src, n):
        """element copy where source and/or destination element index is symbolic: the objects are arrays of n-byte
        elements with a uniform cell layout"""
        so = st.mem[src.obj]
        do = st.wobj(dst.obj)
        if do.const:
            raise Unsupported('memcpy into constant')

        def layout(o, base):
            return sorted((c - base, cell[1], cell[2]) for c, cell in o.cells.items() if base <= c < base + n)

        def candidates(o, off):
            if not is_sym(off):
                return [off]
            a = self.affine.get(off.get_id())
            if a is not None and a[0].eq(off):
                scale, const = a[2], a[3]
                first = const % scale
                return [c for c in range(first, o.size - n + 1, scale)]
            return [c for c in range(0, o.size - n + 1, n)]
        sc = candidates(so, src.off)
        dc = candidates(do, dst.off)
        if not is_sym(src.off) and (src.off < 0 or src.off + n > so.size):
            raise Unsupported('out-of-bounds memcpy source')
        if not is_sym(dst.off) and (dst.off < 0 or dst.off + n > do.size):
            raise Unsupported('out-of-bounds memcpy destination')
        geom = lambda l: [(r, nb) for r, k, nb in l]
        # reference layout = the coarsest one; elements held as byte cells (memset / byte-wise writes) are coalesced to it
        lays = {c: layout(so, c) for c in sc}
        ref = min(lays.values(), key=lambda l: (len(l) == 0, len(l)))
        for c in sc:
            if geom(lays[c]) != geom(ref) and sum(x[2] for x in lays[c]) == n:
                if so.const or so.shared:
                    so = so.clone()
                    so.const = False
                    st.mem[src.obj] = so
                    if src.obj == dst.obj:
                        do = so
                self.coalesce(so, c, ref)
        lay = layout(so, sc[0])
        for c in sc[1:]:
            if geom(layout(so, c)) != geom(lay):
                raise Unsupported('memcpy with symbolic source over non-uniform cells in %s size %d n %d at %d: %r vs %r' % (so.name, so.size, n, c, layout(so, c)[:6], lay[:6]))
        if sum(x[2] for x in lay) != n:
            raise Unsupported('memcpy with symbolic address over partly uninitialised/punned source')
        dlay = layout(do, dc[0]) if is_sym(dst.off) else None
        for c in dc:
            if is_sym(dst.off) and (layout(do, c) != dlay or geom(dlay) != geom(lay)):
                # destination elements must already have the same scalar geometry (they are overwritten conditionally)
                raise Unsupported('memcpy with symbolic destination over non-uniform cells')
        if is_sym(src.off):
            self.memory_query(st, src.off, sc, 'memcpy source ' + so.name)
        if is_sym(dst.off):
            self.memory_query(st, dst.off, dc, 'memcpy destination ' + do.name)
        tymap = {('i', 1): llir.I8, ('i', 2): llir.int_ty(16), ('i', 4): llir.I32, ('i', 8): llir.I64, ('f', 8): llir.DOUBLE,
                 ('f', 4): llir.FLOAT, ('p', 8): llir.PtrTy(llir.I8)}
        vals = []
        for rel, kind, nb in lay:
            t = tymap[(kind, nb)]
            def as_kind(cell):
                return cell[0] if cell[1] == kind else self.cell_as(cell, t)
            v = as_kind(so.cells[sc[-1] + rel])
            for c in reversed(sc[:-1]):
                v = self.ite(self.off_eq(src.off, c), as_kind(so.cells[c + rel]), v, t)
            vals.append((rel, kind, nb, t, v))
        if not is_sym(dst.off):
            for c in [c for c, (cv, ck, cn) in do.cells.items() if dst.off <= c < dst.off + n]:
                del do.cells[c]
            for rel, kind, nb, t, v in vals:
                do.cells[dst.off + rel] = (v, kind, nb)
            return
        dkind = {r: k for r, k, nb in dlay}
        for c in dc:
            cond = self.off_eq(dst.off, c)
            for rel, kind, nb, t, v in vals:
                dk = dkind[rel]
                dt = tymap[(dk, nb)]
                if dk != kind:
                    v2 = self.cell_as((v, kind, nb), dt)
                else:
                    v2 = v
                old = do.cells[c + rel][0]
                do.cells[c + rel] = (self.ite(cond, v2, old, dt), dk, nb)

    def memset_symbolic(self, st, dst, byte, n):
        o = st.wobj(dst.obj)
        a = self.affine.get(dst.off.get_id())
        if a is None or not a[0].eq(dst.off):
            raise Unsupported('memset at a non-affine symbolic address')
        scale, const = a[2], a[3]
        cands = [c for c in range(const % scale, o.size - n + 1, scale)]
        self.memory_query(st, dst.off, cands, 'memset ' + o.name)
        tymap = {('i', 1): llir.I8, ('i', 2): llir.int_ty(16), ('i', 4): llir.I32, ('i', 8): llir.I64, ('f', 8): llir.DOUBLE,
                 ('f', 4): llir.FLOAT, ('p', 8): llir.PtrTy(llir.I8)}
        for c in cands:
            cond = self.off_eq(dst.off, c)
            covered = 0
            for cc in sorted(o.cells):
                cv, ck, cn = o.cells[cc]
                if cc + cn <= c or cc >= c + n:
                    continue
                if cc < c or cc + cn > c + n:
                    raise Unsupported('memset with symbolic address partially covering a cell')
                t = tymap[(ck, cn)]
                if byte == 0:
                    newv = self.zero_of(t)
                elif ck == 'i':
                    newv = sum((byte & 0xff) << (8 * i) for i in range(cn))
                else:
                    raise Unsupported('non-zero memset over non-integer cells at a symbolic address')
                o.cells[cc] = (self.ite(cond, newv, cv, t), ck, cn)
                covered += cn
            if covered < n and not (byte == 0 and o.zero):
                raise Unsupported('memset with symbolic address over uninitialised cells in %s' % o.name)

    def coalesce(self, o, base, ref):
        """rewrite the integer byte cells of the element at `base` into the scalar geometry `ref`"""
        for rel, kind, nb in ref:
            if (base + rel) in o.cells and o.cells[base + rel][2] == nb:
                continue
            parts = []
            for i in range(nb):
                b = self.byte_at(o, base + rel + i)
                if b is None:
                    return
                parts.append(b)
            for c in [c for c, (cv, ck, cn) in o.cells.items() if base + rel <= c < base + rel + nb]:
                del o.cells[c]
            if all(not is_sym(p_) for p_ in parts):
                val = sum(p_ << (8 * i) for i, p_ in enumerate(parts))
            else:
                val = z3.Concat(*[bv(p_, 8) for p_ in reversed(parts)])
            if kind == 'p':
                if not is_sym(val) and val == 0:
                    o.cells[base + rel] = (Ptr(0, 0), 'p', nb)
                else:
                    o.cells[base + rel] = (val, 'i', nb)
            elif kind == 'f' and self.mode != 'real':
                o.cells[base + rel] = (self.bits_to_fp(val, nb * 8), 'f', nb)
            else:
                o.cells[base + rel] = (val, 'i', nb)

    def memset(self, st, dst, byte, n):
        if not is_sym(n) and not is_sym(byte) and is_sym(dst.off):
            return self.memset_symbolic(st, dst, byte, n)
        if is_sym(n) or is_sym(byte) or is_sym(dst.off):
            raise Unsupported('memset with symbolic argument')
        o = st.wobj(dst.obj)
        if dst.off < 0 or dst.off + n > o.size:
            raise Unsupported('out-of-bounds memset')
        for c in [c for c, (cv, ck, cn) in o.cells.items() if c < dst.off + n and dst.off < c + cn]:
            cv, ck, cn = o.cells[c]
            if c >= dst.off and c + cn <= dst.off + n:
                del o.cells[c]
            else:
                self.split_cell(o, c)
                for i in range(cn):
                    if dst.off <= c + i < dst.off + n:
                        del o.cells[c + i]
        if byte == 0 and (o.zero or (dst.off == 0 and n == o.size)):
            if dst.off == 0 and n == o.size:
                o.zero = True
            return
        for i in range(n):
            o.cells[dst.off + i] = (byte & 0xff, 'i', 1)

    def intrinsic(self, st, fr, ins, name, args, stack):
        n = name[5:]
        base = n.split('.')[0]
        t = ins.ty
        if base in ('lifetime', 'dbg', 'experimental', 'prefetch', 'stackrestore', 'donothing', 'var', 'invariant'):
            return None if t.kind == 'void' else self.zero_of(t)
        if base == 'stacksave':
            return Ptr(0, 0)
        if base in ('memcpy', 'memmove'):
            self.memcpy(st, args[0], args[1], args[2])
            return None
        if base == 'memset':
            self.memset(st, args[0], args[1], args[2])
            return None
        if base == 'assume':
            c = args[0]
            if is_sym(c):
                cb = boolean(c)
                self.flush_asserts(st)
                self.res.queries.append(Query('ub', ['llvm.assume violated in ' + fr.fn.name], list(st.pc), [z3.Not(cb)], list(st.inputs), list(st.libm), st.path))
                st.pc.append(cb)
            elif not (c & 1):
                self.record_ub(st, 'llvm.assume(false) in ' + fr.fn.name)
                raise PathEnd()
            return None
        if base == 'expect':
            return args[0]
        if base in ('trap', 'debugtrap'):
            self.record_ub(st, 'llvm.trap in ' + fr.fn.name)
            raise PathEnd()
        if base == 'is':
            return 0
        if base == 'objectsize':
            return mask(-1, t.bits)
        if base == 'fabs':
            return self.fabs(args[0], t)
        if base == 'sqrt':
            return self.fsqrt(st, args[0], t.bits)
        if base == 'fma':
            return self.fma(args, t.bits)
        if base == 'fmuladd':
            return self.fmuladd(args, t.bits)
        if base in ('minnum', 'maxnum'):
            return self.fminmax(base == 'minnum', args[0], args[1], t)
        if base in ('floor', 'ceil', 'trunc', 'round', 'rint', 'nearbyint'):
            return self.fround(base, args[0], t)
        if base == 'copysign':
            return self.copysign(args[0], args[1], t)
        if base in ('exp', 'log', 'sin', 'cos', 'pow', 'exp2', 'log2', 'log10'):
            return self.libm(st, base, args, t.bits)
        if base in ('umin', 'umax', 'smin', 'smax'):
            pred = {'umin': 'ult', 'umax': 'ugt', 'smin': 'slt', 'smax': 'sgt'}[base]
            c = icmp(pred, args[0], args[1], t.bits)
            if not is_sym(c):
                return args[0] if c else args[1]
            return self.ite(boolean(c), args[0], args[1], t)
        if base == 'abs':
            neg = int_binop('sub', 0, args[0], t.bits)
            c = icmp('slt', args[0], 0, t.bits)
            if not is_sym(c):
                return neg if c else args[0]
            return self.ite(boolean(c), neg, args[0], t)
        if base in ('uadd', 'usub', 'umul', 'sadd', 'ssub', 'smul') and 'with.overflow' in n:
            inner = self.L.struct_def(t).fields[0]
            w = inner.bits
            op = base[1:]
            a, b = args
            r = int_binop(op, a, b, w)
            if not is_sym(a) and not is_sym(b):
                if base[0] == 'u':
                    full = {'add': a + b, 'sub': a - b, 'mul': a * b}[op]
                    ov = 1 if (full < 0 or full >> w) else 0
                else:
                    sa, sb = to_signed(a, w), to_signed(b, w)
                    full = {'add': sa + sb, 'sub': sa - sb, 'mul': sa * sb}[op]
                    ov = 0 if -(1 << (w - 1)) <= full < (1 << (w - 1)) else 1
                return [r, ov]
            x, y = bv(a, w), bv(b, w)
            if base[0] == 'u':
                xe, ye = z3.ZeroExt(w, x), z3.ZeroExt(w, y)
            else:
                xe, ye = z3.SignExt(w, x), z3.SignExt(w, y)
            full = {'add': xe + ye, 'sub': xe - ye, 'mul': xe * ye}[op]
            back = z3.ZeroExt(w, bv(r, w)) if base[0] == 'u' else z3.SignExt(w, bv(r, w))
            return [r, concretize(z3.simplify(full != back))]
        if base in ('ctpop', 'ctlz', 'cttz') and not is_sym(args[0]):
            x = args[0]
            w = t.bits
            if base == 'ctpop':
                return bin(x).count('1')
            if base == 'ctlz':
                return w - x.bit_length()
            return (x & -x).bit_length() - 1 if x else w
        raise Unsupported('intrinsic %s' % name)


class MergeFail(Exception):
    pass


class _SwitchState(PathEnd):
    """current state abandoned (its successors were pushed on the stack)"""
    pass


def _b(x):
    return z3.BoolVal(x) if isinstance(x, bool) else x


def _copy_agg(v):
    if isinstance(v, list):
        return [_copy_agg(x) for x in v]
    return v
