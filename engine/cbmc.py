"""Run CBMC on ir2c output and interpret the result."""
import json
import os
import re
import resource
import subprocess
import time

VERIF = os.path.dirname(os.path.dirname(os.path.abspath(__file__)))
RT = os.path.join(VERIF, 'engine/rt')

# --no-standard-checks must come FIRST: it resets every check option given before it
BASE_FLAGS = ['--no-standard-checks', '--unwinding-assertions', '--pointer-overflow-check', '--undefined-shift-check', '--signed-overflow-check',
              '--drop-unused-functions', '--no-malloc-may-fail', '--bounds-check', '--pointer-check',
              '--div-by-zero-check', '--no-built-in-assertions', '--object-bits', '12']


def _limit(mem_gb):
    def f():
        b = int(mem_gb * (1 << 30))
        resource.setrlimit(resource.RLIMIT_AS, (b, b))
        os.setsid()
    return f


def run(c_file, entry, unwind=8, witness=False, timeout=600, extra=(), mem_gb=12, unwindset=(), defines=(), solver=()):
    cmd = ['cbmc', c_file, os.path.join(RT, 'verif_rt.c'), '-I', RT, '--function', entry, '--unwind', str(unwind)] + BASE_FLAGS
    for u in unwindset:
        cmd += ['--unwindset', u]
    if witness:
        cmd += ['-DVERIF_WITNESS']
    for d in defines:
        cmd += ['-D' + d]
    cmd += list(solver)
    cmd += ['--trace', '--json-ui'] + list(extra)
    t0 = time.time()
    try:
        p = subprocess.run(cmd, capture_output=True, text=True, timeout=timeout, preexec_fn=_limit(mem_gb))
    except subprocess.TimeoutExpired as e:
        _kill_group(e)
        return {'status': 'timeout', 'time': time.time() - t0, 'cmd': ' '.join(cmd)}
    dt = time.time() - t0
    res = {'time': dt, 'cmd': ' '.join(cmd), 'rc': p.returncode}
    try:
        data = json.loads(p.stdout)
    except Exception:
        res['status'] = 'error'
        res['detail'] = (p.stdout[-2000:] + p.stderr[-2000:])
        return res
    props = None
    status = None
    msgs = []
    for item in data:
        if 'result' in item:
            props = item['result']
        if 'cProverStatus' in item:
            status = item['cProverStatus']
        if item.get('messageType') == 'ERROR':
            msgs.append(item.get('messageText', ''))
    if props is None:
        res['status'] = 'error'
        res['detail'] = '\n'.join(msgs)[-3000:] or p.stdout[-3000:]
        return res
    fails = []
    for pr in props:
        if pr.get('status') == 'FAILURE':
            d = pr.get('description', '')
            kind = classify(d, pr.get('property', ''))
            ent = {'property': pr.get('property'), 'description': d, 'kind': kind}
            if 'trace' in pr:
                ent['inputs'] = trace_inputs(pr['trace'])
                ent['loc'] = (pr.get('sourceLocation') or {}).get('line')
            fails.append(ent)
    res['n_properties'] = len(props)
    res['failures'] = fails
    res['status'] = 'success' if status == 'success' and not fails else 'failure'
    return res


def _kill_group(e):
    pass


def classify(desc, prop):
    if 'VERIF-OBLIGATION' in desc:
        return 'obligation'
    if 'VERIF-WITNESS' in desc:
        return 'witness'
    if 'VERIF-UNSUPPORTED' in desc:
        return 'unsupported'
    if 'VERIF-UB' in desc:
        return 'ub'
    if 'unwinding assertion' in desc:
        return 'unwind'
    if 'recursion' in desc:
        return 'unwind'
    return 'safety'   # pointer/bounds/overflow/shift/div checks inserted by CBMC


def trace_inputs(trace):
    vals = {}
    for st in trace:
        if st.get('stepType') != 'assignment':
            continue
        lhs = st.get('lhs', '')
        m = re.fullmatch(r'verif_in_bits\[(\d+)l?\]', lhs)
        if not m:
            continue
        v = st.get('value', {})
        b = v.get('binary')
        if b is None:
            d = v.get('data')
            try:
                b = bin(int(re.sub(r'[a-zA-Z]+$', '', d)))[2:]
            except Exception:
                continue
        vals[int(m.group(1))] = int(b, 2)
    if not vals:
        return []
    n = max(vals) + 1
    return [vals.get(i, 0) for i in range(n)]


def loops(c_file, entry):
    """[(loop id, function)] from cbmc --show-loops"""
    cmd = ['cbmc', c_file, os.path.join(RT, 'verif_rt.c'), '-I', RT, '--function', entry, '--show-loops', '--json-ui', '--drop-unused-functions']
    p = subprocess.run(cmd, capture_output=True, text=True, timeout=300)
    out = []
    try:
        data = json.loads(p.stdout)
    except Exception:
        return out
    for item in data:
        for l in item.get('loops', []) if isinstance(item, dict) else []:
            out.append((l.get('name'), (l.get('sourceLocation') or {}).get('function', '')))
    return out
