"""Engine A front end: LLVM IR (as parsed by llir) -> plain C for CBMC (and gcc, for
translator validation).  Only the functions/globals reachable from the requested
entry points are emitted.
"""
import math
import re
import struct as _struct

from . import llir
from .llir import Val

NORETURN_NAMES = {
    '__cxa_throw', '__cxa_rethrow', 'abort', 'exit', '_exit', '__assert_fail', '_ZSt9terminatev',
    '__cxa_bad_cast', '__cxa_bad_typeid', '__cxa_pure_virtual', '_Unwind_Resume', '__clang_call_terminate',
    'verif_validate_fail', '__cxa_call_unexpected', '__stack_chk_fail',
}
NORETURN_PREFIX = ('_ZSt20__throw_', '_ZSt19__throw_', '_ZSt17__throw_', '_ZSt16__throw_', '_ZSt21__throw_',
                   '_ZSt24__throw_', '_ZSt28__throw_', '_ZSt25__throw_', '_ZSt18__throw_', '_ZN9celeritas17throw_',
                   '_ZN9celeritas5debug', '_ZSt15__throw_')

LIBM1 = {'exp', 'log', 'sin', 'cos', 'tan', 'atan', 'asin', 'acos', 'sinh', 'cosh', 'tanh', 'cbrt', 'exp2', 'log2',
         'log10', 'expm1', 'log1p', 'erf', 'erfc', 'tgamma', 'lgamma', 'atanh', 'asinh', 'acosh'}
LIBM2 = {'pow', 'atan2', 'hypot', 'fmod'}

VERIF_API = {'verif_nondet_f64', 'verif_nondet_f32', 'verif_nondet_u32', 'verif_nondet_u64', 'verif_nondet_bool',
             'verif_assume', 'verif_assert', 'verif_reach', 'verif_observe_u64', 'verif_observe_f64',
             'verif_throw_hook', 'verif_known_region', 'verif_approx_eq', 'verif_close'}


class Unsupported(Exception):
    pass


class Emitter:
    def __init__(self, mod, entries, cuts=None, opts=None):
        self.m = mod
        self.L = mod.layout
        self.entries = entries
        self.cuts = cuts or {}       # mangled name (or regex) -> replacement function name
        self.opts = opts or {}
        self.names = {}
        self.used = set()
        self.struct_names = {}       # canonical type string -> C struct name
        self.struct_defs = {}        # C struct name -> (fields as list of (ctype, fname) or None for opaque, packed)
        self.struct_order = []
        self.ext_stubs = {}          # name -> Function (externals modelled as havoc stubs)
        self.libm_used = set()
        self.warnings = []
        self.noreturn = set()

    # -- names
    def ident(self, prefix, name):
        key = (prefix, name)
        if key in self.names:
            return self.names[key]
        s = prefix + re.sub(r'[^A-Za-z0-9_]', '_', name)
        if len(s) > 200:
            s = s[:180] + '_h%08x' % (hash(name) & 0xffffffff)
        base = s
        k = 1
        while s in self.used:
            k += 1
            s = '%s_%d' % (base, k)
        self.used.add(s)
        self.names[key] = s
        return s

    # -- types
    def cty(self, t):
        k = t.kind
        if k == 'void':
            return 'void'
        if k == 'int':
            b = t.bits
            if b == 1:
                return 'uint8_t'
            if b <= 8:
                return 'uint8_t'
            if b <= 16:
                return 'uint16_t'
            if b <= 32:
                return 'uint32_t'
            if b <= 64:
                return 'uint64_t'
            if b <= 128:
                return 'unsigned __int128'
            raise Unsupported('int width %d' % b)
        if k == 'float':
            if t.bits == 32:
                return 'float'
            if t.bits == 64:
                return 'double'
            if t.bits == 80:
                return 'long double'
            raise Unsupported('float type %s' % t.s())
        if k == 'ptr':
            e = t.elem
            if e.kind == 'func':
                return 'void*'
            if e.kind == 'void':
                return 'void*'
            if e.kind in ('label', 'metadata', 'token', 'opaque'):
                return 'void*'
            return self.cty(e) + '*'
        if k == 'struct':
            return 'struct ' + self.struct_name(t)
        if k == 'array':
            return 'struct ' + self.struct_name(t)
        if k == 'func':
            return 'void'
        raise Unsupported('type %s' % t.s())

    def struct_name(self, t):
        key = t.s()
        if key in self.struct_names:
            return self.struct_names[key]
        if t.kind == 'array':
            nm = self.ident('A_', '%d_%s' % (t.n, re.sub(r'^(struct|class|union)\.', '', t.elem.s().strip('%'))))
            self.struct_names[key] = nm
            ect = self.cty(t.elem)
            self.struct_defs[nm] = ([(ect, 'a[%d]' % t.n)], False)
            self.struct_order.append(nm)
            return nm
        # struct
        d = self.L.struct_def(t)
        nm = self.ident('S_', re.sub(r'^(struct|class|union)\.', '', d.name) if d.name else 'lit%d' % len(self.struct_names))
        self.struct_names[key] = nm
        if d.opaque or (d.name and not d.fields and d.name not in self.m.types):
            self.struct_defs[nm] = (None, False)
            self.struct_order.append(nm)
            return nm
        self.struct_defs[nm] = ('pending', False)
        fields = []
        for i, f in enumerate(d.fields):
            fields.append((self.cty(f), 'f%d' % i))
        if not fields:
            fields = None if d.opaque else []
        self.struct_defs[nm] = (fields, d.packed)
        self.struct_order.append(nm)
        return nm

    def is_nonstd_int(self, t):
        return t.kind == 'int' and t.bits not in (8, 16, 32, 64, 128)

    def mask(self, t, e):
        if self.is_nonstd_int(t):
            if t.bits < 64:
                return '((%s)((%s) & %dull))' % (self.cty(t), e, (1 << t.bits) - 1)
            raise Unsupported('mask width %d' % t.bits)
        return e

    def sty(self, t):
        """signed C type for int type t"""
        b = t.bits
        if b <= 8:
            return 'int8_t'
        if b <= 16:
            return 'int16_t'
        if b <= 32:
            return 'int32_t'
        if b <= 64:
            return 'int64_t'
        return '__int128'

    def sext(self, t, e):
        """expression of signed C type holding the sign-extended value of e (of int type t)"""
        if self.is_nonstd_int(t):
            sh_ty = self.sty(t)
            w = {'int8_t': 8, 'int16_t': 16, 'int32_t': 32, 'int64_t': 64}[sh_ty]
            sh = w - t.bits
            u = self.cty(t)
            return '((%s)((%s)((%s)(%s) << %d)) >> %d)' % (sh_ty, sh_ty, u, e, sh, sh)
        return '((%s)(%s))' % (self.sty(t), e)

    # -- constants
    def fconst(self, ty, d):
        if d is None:
            raise Unsupported('x87 constant')
        if math.isnan(d):
            e = '__builtin_nan("")'
        elif math.isinf(d):
            e = '__builtin_inf()' if d > 0 else '(-__builtin_inf())'
        else:
            e = d.hex()
            if e.startswith('-'):
                e = '(%s)' % e
        if ty.bits == 32:
            return '((float)%s)' % e
        return e

    def cval(self, v, fn=None):
        k = v.kind
        t = v.ty
        if k == 'local':
            return self._local(fn, v.v)
        if k == 'global':
            return self.gref(v)
        if k == 'int':
            if t.bits > 64:
                hi = v.v >> 64
                lo = v.v & ((1 << 64) - 1)
                return '((((unsigned __int128)%dull) << 64) | %dull)' % (hi, lo)
            return '((%s)%dull)' % (self.cty(t), v.v)
        if k == 'float':
            return self.fconst(t, v.v)
        if k == 'null':
            return '((%s)0)' % self.cty(t)
        if k in ('undef', 'zero'):
            if t.kind in ('struct', 'array'):
                return '((%s){0})' % self.cty(t)
            if t.kind == 'float':
                return '0.0'
            return '((%s)0)' % self.cty(t)
        if k in ('struct', 'array', 'cstr'):
            return '((%s)%s)' % (self.cty(t), self.cinit(v))
        if k == 'cexpr':
            return self.cexpr(v, fn)
        raise Unsupported('value kind %s' % k)

    def cinit(self, v):
        """brace initialiser for a constant"""
        k = v.kind
        t = v.ty
        if k in ('zero', 'undef'):
            if t.kind in ('struct', 'array'):
                return '{0}'
            return '0'
        if k == 'struct':
            if not v.args:
                return '{0}'
            return '{ ' + ', '.join(self.cinit(a) for a in v.args) + ' }'
        if k == 'array':
            return '{ { ' + ', '.join(self.cinit(a) for a in v.args) + ' } }'
        if k == 'cstr':
            return '{ { ' + ', '.join(str(b) for b in v.v) + ' } }'
        return self.cval(v)

    def gref(self, v):
        name = v.v
        if name in self.m.functions:
            self.need_func(name)
            f = self.m.functions[name]
            if name in VERIF_API or self.is_special_external(name):
                return '((void*)0)'
            return '((%s)&%s)' % (self.cty(v.ty) if v.ty.kind == 'ptr' else 'void*', self.fname(name))
        g = self.m.globals.get(name)
        if g is None:
            raise Unsupported('unknown global @%s' % name)
        self.need_global(name)
        if getattr(g, 'alias', False):
            return self.cval(g.init)
        return '(&%s)' % self.ident('g_', name)

    def cexpr(self, v, fn):
        op = v.v
        a = v.args
        if op == 'getelementptr':
            return self.gep_expr(v.extra['src'], a, fn, v.ty if v.ty.kind == 'ptr' else None)
        if op in ('bitcast', 'addrspacecast'):
            if v.ty.kind == 'ptr':
                return '((%s)%s)' % (self.cty(v.ty), self.cval(a[0], fn))
            raise Unsupported('constant bitcast to %s' % v.ty.s())
        if op == 'ptrtoint':
            return '((%s)(uintptr_t)%s)' % (self.cty(v.ty), self.cval(a[0], fn))
        if op == 'inttoptr':
            return '((%s)(uintptr_t)%s)' % (self.cty(v.ty), self.cval(a[0], fn))
        if op in ('add', 'sub', 'mul', 'and', 'or', 'xor'):
            sym = {'add': '+', 'sub': '-', 'mul': '*', 'and': '&', 'or': '|', 'xor': '^'}[op]
            return '((%s)(%s %s %s))' % (self.cty(a[0].ty), self.cval(a[0], fn), sym, self.cval(a[1], fn))
        if op == 'icmp':
            return self.icmp(v.extra['pred'], a[0].ty, self.cval(a[0], fn), self.cval(a[1], fn))
        if op == 'select':
            return '(%s ? %s : %s)' % (self.cval(a[0], fn), self.cval(a[1], fn), self.cval(a[2], fn))
        if op in ('trunc', 'zext'):
            return self.mask(v.ty, '((%s)%s)' % (self.cty(v.ty), self.cval(a[0], fn)))
        raise Unsupported('constant expression %s' % op)

    def gep_expr(self, src, args, fn, rty=None):
        base = self.cval(args[0], fn)
        e = '((%s*)%s)' % (self.cty(src), base)
        idx0 = args[1]
        path = '[%s]' % self.index_expr(idx0, fn)
        t = src
        for a in args[2:]:
            if t.kind == 'struct':
                d = self.L.struct_def(t)
                path += '.f%d' % a.v
                t = d.fields[a.v]
            elif t.kind == 'array':
                path += '.a[%s]' % self.index_expr(a, fn)
                t = t.elem
            else:
                raise Unsupported('gep through %s' % t.s())
        res = '(&%s%s)' % (e, path)
        return res

    def index_expr(self, a, fn):
        if a.kind == 'int':
            x = a.v
            if x >= 1 << (a.ty.bits - 1):
                x -= 1 << a.ty.bits
            return str(x)
        return '((int64_t)%s)' % self.sext(a.ty, self.cval(a, fn))

    def icmp(self, pred, t, a, b):
        if t.kind == 'ptr':
            if pred in ('eq', 'ne'):
                return '((uint8_t)(%s %s %s))' % (a, '==' if pred == 'eq' else '!=', b)
            a = '((uintptr_t)%s)' % a
            b = '((uintptr_t)%s)' % b
            sym = {'ult': '<', 'ule': '<=', 'ugt': '>', 'uge': '>=', 'slt': '<', 'sle': '<=', 'sgt': '>', 'sge': '>='}[pred]
            return '((uint8_t)(%s %s %s))' % (a, sym, b)
        if pred in ('eq', 'ne'):
            return '((uint8_t)(%s %s %s))' % (a, '==' if pred == 'eq' else '!=', b)
        sym = {'lt': '<', 'le': '<=', 'gt': '>', 'ge': '>='}[pred[1:]]
        if pred[0] == 's':
            return '((uint8_t)(%s %s %s))' % (self.sext(t, a), sym, self.sext(t, b))
        return '((uint8_t)((%s)%s %s (%s)%s))' % (self.cty(t), a, sym, self.cty(t), b)

    def fcmp(self, pred, a, b):
        tbl = {
            'oeq': '(%s == %s)', 'ogt': '(%s > %s)', 'oge': '(%s >= %s)', 'olt': '(%s < %s)', 'ole': '(%s <= %s)',
            'one': '(%s < %s || %s > %s)', 'ord': '(%s == %s && %s == %s)', 'ueq': '(!(%s < %s || %s > %s))',
            'ugt': '(!(%s <= %s))', 'uge': '(!(%s < %s))', 'ult': '(!(%s >= %s))', 'ule': '(!(%s > %s))',
            'une': '(%s != %s)', 'uno': '(!(%s == %s && %s == %s))', 'true': '1', 'false': '0'}
        f = tbl[pred]
        if pred in ('ord', 'uno'):
            return '((uint8_t)%s)' % (f % (a, a, b, b))
        n = f.count('%s')
        if n == 4:
            return '((uint8_t)%s)' % (f % (a, b, a, b))
        if n == 0:
            return '((uint8_t)%s)' % f
        return '((uint8_t)%s)' % (f % (a, b))

    # -- reachability bookkeeping
    def need_func(self, name):
        if name not in self.funcs_needed:
            self.funcs_needed.add(name)
            self.work.append(('f', name))

    def need_global(self, name):
        if name not in self.globals_needed:
            self.globals_needed.add(name)
            self.work.append(('g', name))

    def fname(self, name):
        if name.startswith('verif_') or name.startswith('obl_') or name.startswith('stub_'):
            return name
        return self.ident('f_', name)

    def _local(self, fn, name):
        d = self.cur_locals
        if name not in d:
            s = 'v' + re.sub(r'[^A-Za-z0-9_]', '_', name)
            base = s
            k = 1
            while s in self.cur_local_used:
                k += 1
                s = '%s_%d' % (base, k)
            self.cur_local_used.add(s)
            d[name] = s
        return d[name]

    def is_special_external(self, name):
        return self.classify_external(name) is not None

    def is_noreturn(self, name):
        if name in NORETURN_NAMES or name in self.noreturn:
            return True
        return any(name.startswith(p) for p in NORETURN_PREFIX)

    def classify_external(self, name):
        """returns a tag for externals with built-in models"""
        if name.startswith('llvm.'):
            return 'intrinsic'
        if name in VERIF_API:
            return 'verif'
        if self.is_noreturn(name):
            return 'noreturn'
        base = name
        if base in LIBM1 or base in LIBM2 or (base.endswith('f') and (base[:-1] in LIBM1 or base[:-1] in LIBM2)):
            return 'libm'
        if name in ('sqrt', 'sqrtf', 'fabs', 'fabsf', 'floor', 'ceil', 'floorf', 'ceilf', 'fma', 'fmaf', 'fmin', 'fmax',
                    'copysign', 'trunc', 'round', 'rint', 'nearbyint', 'ldexp', 'sincos', 'memcpy', 'memset',
                    'memmove', 'memcmp', 'strlen', 'fminf', 'fmaxf', 'lround', 'lrint', 'llround', 'remainder',
                    'nextafter', 'frexp', 'modf'):
            return 'libc'
        if name in ('_Znwm', '_Znam', 'malloc', '__cxa_allocate_exception', 'calloc'):
            return 'alloc'
        if name in ('_ZdlPv', '_ZdaPv', 'free', '__cxa_free_exception', '_ZdlPvm', '_ZdaPvm', '__cxa_begin_catch',
                    '__cxa_end_catch', '__cxa_atexit', '__cxa_guard_release', '__cxa_guard_abort'):
            return 'noop'
        return None

    # -- emit
    def emit(self):
        self.funcs_needed = set()
        self.globals_needed = set()
        self.work = []
        self.func_code = {}
        self.global_code = {}
        self.protos = {}
        for e in self.entries:
            if e not in self.m.functions or self.m.functions[e].is_decl:
                raise Unsupported('entry %s not defined in module' % e)
            self.need_func(e)
        while self.work:
            kind, name = self.work.pop()
            if kind == 'f':
                self.do_func(name)
            else:
                self.do_global(name)
        return self._assemble()

    def _assemble(self):
        head = ['#include "verif_rt.h"', '']
        if 'verif_throw_hook' not in self.func_code:
            head.append('static inline void verif_throw_hook(void) {}')
        # make sure every struct mentioned by field types is known (cty may register more)
        for nm in self.struct_order:
            head.append('struct %s;' % nm)
        emitted = set()
        defs = []

        def emit_struct(nm, stack=()):
            if nm in emitted:
                return
            fields, packed = self.struct_defs[nm]
            if fields is None or fields == 'pending':
                emitted.add(nm)
                return
            if nm in stack:
                raise Unsupported('recursive struct %s' % nm)
            for ct, fnm in fields:
                m = re.match(r'^struct (\w+)$', ct)
                if m:
                    emit_struct(m.group(1), stack + (nm,))
            emitted.add(nm)
            body = ' '.join('%s %s;' % (ct, fnm) for ct, fnm in fields)
            if not fields:
                body = 'uint8_t verif_empty[0];'
            defs.append('struct %s%s { %s };' % ('__attribute__((packed)) ' if packed else '', nm, body))

        for nm in list(self.struct_order):
            emit_struct(nm)
        out = head + defs + ['']
        for name in sorted(self.protos):
            out.append(self.protos[name])
        out.append('')
        for name in sorted(self.global_code):
            out.append(self.global_code[name][0])
        out.append('')
        for name in sorted(self.global_code):
            out.append(self.global_code[name][1])
        out.append('')
        for name in sorted(self.func_code):
            out.append(self.func_code[name])
            out.append('')
        return '\n'.join(out) + '\n'

    def do_global(self, name):
        g = self.m.globals[name]
        if getattr(g, 'alias', False):
            return
        cn = self.ident('g_', name)
        ct = self.cty(g.ty) if g.ty.kind != 'func' else 'uint8_t'
        if g.init is None:
            # external object: opaque storage
            self.global_code[name] = ('extern %s %s;' % (ct, cn), '%s %s; /* external, zero-initialised model */' % (ct, cn))
            self.warnings.append('external global @%s modelled as zero-initialised object' % name)
            return
        init = self.cinit(g.init)
        self.global_code[name] = ('extern %s %s;' % (ct, cn), '%s %s = %s;' % (ct, cn, init))

    def proto(self, f, cname):
        ps = ', '.join('%s %s' % (self.cty(t), 'p%d' % i) for i, (t, n) in enumerate(f.params))
        if f.vararg:
            ps = ps + ', ...' if ps else 'void'
        return '%s %s(%s)' % (self.cty(f.ret), cname, ps or 'void')

    def do_func(self, name):
        f = self.m.functions[name]
        tag = self.classify_external(name)
        if tag is not None and f.is_decl:
            return
        for pat, repl in self.cuts.items():
            if re.fullmatch(pat, name):
                self.need_func(repl)
                return
        cname = self.fname(name)
        if f.is_decl:
            # havoc stub: nondeterministic result, no side effects
            self.ext_stubs[name] = f
            self.protos[name] = self.proto(f, cname) + ';'
            body = []
            if f.ret.kind != 'void':
                body.append('  %s r; VERIF_HAVOC(r); return r;' % self.cty(f.ret))
            self.func_code[name] = '/* external stub */ %s {\n%s\n}' % (self.proto(f, cname), '\n'.join(body))
            return
        self.protos[name] = self.proto(f, cname) + ';'
        self.func_code[name] = self.func_body(f, cname)

    # -- function bodies
    def func_body(self, f, cname):
        self.cur_locals = {}
        self.cur_local_used = set()
        decls = []
        lines = []
        byval = getattr(f, 'byval', set())
        ps = []
        for i, (t, n) in enumerate(f.params):
            ps.append('%s %s' % (self.cty(t), self._local(f, n)))
        # phi temps
        phis = {}
        for b in f.blocks:
            for ins in b.instrs:
                if ins.op == 'phi':
                    phis.setdefault(b.name, []).append(ins)
        labels = {b.name: 'L_' + re.sub(r'[^A-Za-z0-9_]', '_', b.name) for b in f.blocks}
        # ensure label uniqueness
        seen = {}
        for bn in list(labels):
            l = labels[bn]
            if l in seen:
                k = 2
                while '%s_%d' % (l, k) in seen:
                    k += 1
                l = '%s_%d' % (l, k)
                labels[bn] = l
            seen[l] = bn
        self.cur_f = f
        self.cur_defs = {ins.res: ins for b in f.blocks for ins in b.instrs if ins.res is not None}
        self.cur_labels = labels
        self.cur_phis = phis
        self.cur_decls = decls

        def edge(frm, to, indent='  '):
            out = []
            for ins in phis.get(to, []):
                for v, lab in zip(ins.ops, ins.extra['labels']):
                    if lab == frm:
                        out.append('%s%s__phi = %s;' % (indent, self._local(f, ins.res), self.cval(v, f)))
                        break
                else:
                    raise Unsupported('phi without incoming for edge %s->%s' % (frm, to))
            out.append('%sgoto %s;' % (indent, labels[to]))
            return out

        order = self.rpo(f) if self.opts.get('rpo') else list(f.blocks)
        self.cur_order = {b.name: i for i, b in enumerate(order)}
        for bi, b in enumerate(order):
            lines.append('%s: ;' % labels[b.name])
            for ins in phis.get(b.name, []):
                r = self._local(f, ins.res)
                decls.append('%s %s; %s %s__phi;' % (self.cty(ins.ty), r, self.cty(ins.ty), r))
                lines.append('  %s = %s__phi;' % (r, r))
            for ins in b.instrs:
                if ins.op == 'phi':
                    continue
                self.instr(f, b, ins, lines, decls, edge)
        hdr = '%s %s(%s)' % (self.cty(f.ret), cname, ', '.join(ps) or 'void')
        return '%s {\n  %s\n%s\n}' % (hdr, '\n  '.join(decls), '\n'.join(lines))

    def rpo(self, f):
        """blocks in reverse post-order: only genuine back edges become backward gotos (CBMC then resets the unwinding
        counter of an inner loop whenever it is left)"""
        succ = {}
        for b in f.blocks:
            t = b.instrs[-1] if b.instrs else None
            out = []
            if t is not None:
                if t.op == 'br':
                    out = [t.extra['dest']]
                elif t.op == 'condbr':
                    out = [t.extra['t'], t.extra['f']]
                elif t.op == 'switch':
                    out = [t.extra['default']] + [l for _, l in t.extra['cases']]
                elif t.op == 'invoke':
                    out = [t.extra['normal'], t.extra['unwind']]
            succ[b.name] = out
        seen = set()
        order = []
        stack = [(f.blocks[0].name, iter(succ[f.blocks[0].name]))]
        seen.add(f.blocks[0].name)
        while stack:
            name, it = stack[-1]
            adv = False
            for s_ in it:
                if s_ not in seen and s_ in f.bmap:
                    seen.add(s_)
                    stack.append((s_, iter(succ[s_])))
                    adv = True
                    break
            if not adv:
                order.append(name)
                stack.pop()
        order.reverse()
        blocks = [f.bmap[n] for n in order]
        blocks += [b for b in f.blocks if b.name not in seen]
        return blocks

    def assign(self, f, ins, expr, lines, decls):
        r = self._local(f, ins.res)
        decls.append('%s %s;' % (self.cty(ins.ty), r))
        lines.append('  %s = %s;' % (r, expr))
        if self.opts.get('trace') and ins.op != 'ptrtoint' and ins.ty.kind in ('int', 'float') and (ins.ty.kind != 'int' or ins.ty.bits <= 64):
            self.trace_id = getattr(self, 'trace_id', 0) + 1
            conv = 'verif_d2u((double)%s)' % r if ins.ty.kind == 'float' else '((uint64_t)%s)' % r
            lines.append('  VERIF_TR(%d, %s); /* %s line %d */' % (self.trace_id, conv, ins.op, ins.line))

    def instr(self, f, b, ins, lines, decls, edge):
        op = ins.op
        cv = lambda v: self.cval(v, f)
        if op in ('add', 'sub', 'mul', 'and', 'or', 'xor', 'shl', 'lshr', 'udiv', 'urem'):
            sym = {'add': '+', 'sub': '-', 'mul': '*', 'and': '&', 'or': '|', 'xor': '^', 'shl': '<<', 'lshr': '>>',
                   'udiv': '/', 'urem': '%'}[op]
            t = ins.ty
            ct = self.cty(t)
            if op == 'sub' and t.bits == 64:
                # pointer difference idiom: sub (ptrtoint p), (ptrtoint q) -> C pointer subtraction (same-object offsets;
                # avoids CBMC's expensive pointer-to-integer encoding)
                da = self.cur_defs.get(ins.ops[0].v) if ins.ops[0].kind == 'local' else None
                db = self.cur_defs.get(ins.ops[1].v) if ins.ops[1].kind == 'local' else None
                if da is not None and db is not None and da.op == 'ptrtoint' and db.op == 'ptrtoint':
                    self.assign(f, ins, '((uint64_t)((uint8_t*)%s - (uint8_t*)%s))' % (cv(da.ops[0]), cv(db.ops[0])), lines, decls)
                    return
            a, bb = cv(ins.ops[0]), cv(ins.ops[1])
            if op in ('shl', 'lshr') and self.is_nonstd_int(t):
                e = '((%s) %s (%s))' % (a, sym, bb)
            else:
                e = '((%s)%s %s (%s)%s)' % (ct, a, sym, ct, bb)
            if 'nsw' in ins.extra.get('flags', ()) and self.opts.get('nsw_checks') and op in ('add', 'sub', 'mul') and not self.is_nonstd_int(t) and t.bits <= 64:
                st = self.sty(t)
                bfn = {'add': '__builtin_add_overflow', 'sub': '__builtin_sub_overflow', 'mul': '__builtin_mul_overflow'}[op]
                lines.append('  { %s verif_t; VERIF_NSW(!%s((%s)%s, (%s)%s, &verif_t)); }' % (st, bfn, st, a, st, bb))
            self.assign(f, ins, self.mask(t, '((%s)%s)' % (ct, e)), lines, decls)
            return
        if op in ('sdiv', 'srem', 'ashr'):
            t = ins.ty
            sym = {'sdiv': '/', 'srem': '%', 'ashr': '>>'}[op]
            a = self.sext(t, cv(ins.ops[0]))
            bb = self.sext(t, cv(ins.ops[1])) if op != 'ashr' else cv(ins.ops[1])
            self.assign(f, ins, self.mask(t, '((%s)(%s %s %s))' % (self.cty(t), a, sym, bb)), lines, decls)
            return
        if op in ('fadd', 'fsub', 'fmul', 'fdiv'):
            sym = {'fadd': '+', 'fsub': '-', 'fmul': '*', 'fdiv': '/'}[op]
            self.assign(f, ins, '(%s %s %s)' % (cv(ins.ops[0]), sym, cv(ins.ops[1])), lines, decls)
            return
        if op == 'frem':
            self.assign(f, ins, 'fmod(%s, %s)' % (cv(ins.ops[0]), cv(ins.ops[1])), lines, decls)
            return
        if op == 'fneg':
            self.assign(f, ins, '(-%s)' % cv(ins.ops[0]), lines, decls)
            return
        if op == 'icmp':
            self.assign(f, ins, self.icmp(ins.extra['pred'], ins.ops[0].ty, cv(ins.ops[0]), cv(ins.ops[1])), lines, decls)
            return
        if op == 'fcmp':
            self.assign(f, ins, self.fcmp(ins.extra['pred'], cv(ins.ops[0]), cv(ins.ops[1])), lines, decls)
            return
        if op == 'select':
            self.assign(f, ins, '(%s ? %s : %s)' % (cv(ins.ops[0]), cv(ins.ops[1]), cv(ins.ops[2])), lines, decls)
            return
        if op in ('trunc', 'zext'):
            self.assign(f, ins, self.mask(ins.ty, '((%s)%s)' % (self.cty(ins.ty), cv(ins.ops[0]))), lines, decls)
            return
        if op == 'sext':
            self.assign(f, ins, self.mask(ins.ty, '((%s)%s)' % (self.cty(ins.ty), self.sext(ins.ops[0].ty, cv(ins.ops[0])))), lines, decls)
            return
        if op in ('fptrunc', 'fpext'):
            self.assign(f, ins, '((%s)%s)' % (self.cty(ins.ty), cv(ins.ops[0])), lines, decls)
            return
        if op == 'fptoui':
            self.assign(f, ins, self.mask(ins.ty, '((%s)%s)' % (self.cty(ins.ty), cv(ins.ops[0]))), lines, decls)
            return
        if op == 'fptosi':
            self.assign(f, ins, self.mask(ins.ty, '((%s)(%s)%s)' % (self.cty(ins.ty), self.sty(ins.ty), cv(ins.ops[0]))), lines, decls)
            return
        if op == 'uitofp':
            self.assign(f, ins, '((%s)%s)' % (self.cty(ins.ty), cv(ins.ops[0])), lines, decls)
            return
        if op == 'sitofp':
            self.assign(f, ins, '((%s)%s)' % (self.cty(ins.ty), self.sext(ins.ops[0].ty, cv(ins.ops[0]))), lines, decls)
            return
        if op == 'ptrtoint':
            self.assign(f, ins, '((%s)(uintptr_t)%s)' % (self.cty(ins.ty), cv(ins.ops[0])), lines, decls)
            return
        if op == 'inttoptr':
            self.assign(f, ins, '((%s)(uintptr_t)%s)' % (self.cty(ins.ty), cv(ins.ops[0])), lines, decls)
            return
        if op in ('bitcast', 'addrspacecast'):
            st, dt = ins.ops[0].ty, ins.ty
            if dt.kind == 'ptr' and st.kind == 'ptr':
                self.assign(f, ins, '((%s)%s)' % (self.cty(dt), cv(ins.ops[0])), lines, decls)
            else:
                r = self._local(f, ins.res)
                decls.append('%s %s;' % (self.cty(dt), r))
                lines.append('  { %s verif_t = %s; memcpy(&%s, &verif_t, sizeof(%s)); }' % (self.cty(st), cv(ins.ops[0]), r, r))
            return
        if op == 'freeze':
            self.assign(f, ins, cv(ins.ops[0]), lines, decls)
            return
        if op == 'alloca':
            at = ins.extra['alloc_ty']
            r = self._local(f, ins.res)
            if ins.ops:
                cnt = ins.ops[0]
                if cnt.kind != 'int':
                    raise Unsupported('dynamic alloca')
                decls.append('%s %s_obj[%d]; %s %s;' % (self.cty(at), r, cnt.v, self.cty(ins.ty), r))
                lines.append('  %s = &%s_obj[0];' % (r, r))
            else:
                decls.append('%s %s_obj; %s %s;' % (self.cty(at), r, self.cty(ins.ty), r))
                lines.append('  %s = &%s_obj;' % (r, r))
            return
        if op == 'load':
            self.assign(f, ins, '(*%s)' % cv(ins.ops[0]), lines, decls)
            return
        if op == 'store':
            lines.append('  *%s = %s;' % (cv(ins.ops[1]), cv(ins.ops[0])))
            return
        if op == 'getelementptr':
            self.assign(f, ins, '((%s)%s)' % (self.cty(ins.ty), self.gep_expr(ins.extra['src'], ins.ops, f)), lines, decls)
            return
        if op == 'extractvalue':
            e = cv(ins.ops[0])
            t = ins.ops[0].ty
            for ix in ins.extra['idx']:
                if t.kind == 'struct':
                    e += '.f%d' % ix
                    t = self.L.struct_def(t).fields[ix]
                else:
                    e += '.a[%d]' % ix
                    t = t.elem
            self.assign(f, ins, e, lines, decls)
            return
        if op == 'insertvalue':
            r = self._local(f, ins.res)
            decls.append('%s %s;' % (self.cty(ins.ty), r))
            lines.append('  %s = %s;' % (r, cv(ins.ops[0])))
            e = r
            t = ins.ty
            for ix in ins.extra['idx']:
                if t.kind == 'struct':
                    e += '.f%d' % ix
                    t = self.L.struct_def(t).fields[ix]
                else:
                    e += '.a[%d]' % ix
                    t = t.elem
            lines.append('  %s = %s;' % (e, cv(ins.ops[1])))
            return
        if op == 'br':
            lines += edge(b.name, ins.extra['dest'])
            return
        if op == 'condbr':
            t, fl = ins.extra['t'], ins.extra['f']
            if t != fl and self.opts.get('cond_backedges'):
                # phi temporaries of both successors are assigned unconditionally (SSA: incoming values dominate the end of
                # this block), so that the BACKWARD goto can be the conditional one: CBMC resets a loop's unwinding counter
                # only when its backward goto is not taken
                et = edge(b.name, t)
                ef = edge(b.name, fl)
                lines += et[:-1] + ef[:-1]
                pos = self.cur_order
                back_t = pos.get(t, 1 << 30) <= pos.get(b.name, 0)
                back_f = pos.get(fl, 1 << 30) <= pos.get(b.name, 0)
                c = cv(ins.ops[0])
                if back_f and not back_t:
                    lines.append('  if (!(%s)) %s' % (c, ef[-1].strip()))
                    lines.append(et[-1])
                else:
                    lines.append('  if (%s) %s' % (c, et[-1].strip()))
                    lines.append(ef[-1])
                return
            lines.append('  if (%s) {' % cv(ins.ops[0]))
            lines += edge(b.name, ins.extra['t'], '    ')
            lines.append('  } else {')
            lines += edge(b.name, ins.extra['f'], '    ')
            lines.append('  }')
            return
        if op == 'switch':
            v = ins.ops[0]
            lines.append('  switch (%s) {' % cv(v))
            for cval_, lab in ins.extra['cases']:
                lines.append('  case %dull: {' % cval_)
                lines += edge(b.name, lab, '    ')
                lines.append('  }')
            lines.append('  default: {')
            lines += edge(b.name, ins.extra['default'], '    ')
            lines.append('  } }')
            return
        if op == 'ret':
            if ins.ops:
                lines.append('  return %s;' % cv(ins.ops[0]))
            else:
                lines.append('  return;')
            return
        if op == 'unreachable':
            lines.append('  VERIF_UNREACHABLE();')
            return
        if op in ('landingpad', 'resume', 'cleanuppad', 'catchpad', 'catchswitch', 'cleanupret', 'catchret'):
            lines.append('  VERIF_PATH_END(); /* %s: exception edges are not modelled */' % op)
            if ins.res:
                r = self._local(f, ins.res)
                decls.append('%s %s;' % (self.cty(ins.ty), r))
            return
        if op in ('call', 'invoke'):
            self.call(f, b, ins, lines, decls, edge)
            return
        if op == 'fence':
            return
        if op == 'atomicrmw':
            # single-threaded model: read-modify-write
            p, v = cv(ins.ops[0]), cv(ins.ops[1])
            rmw = ins.extra['rmw']
            sym = {'add': '+', 'sub': '-', 'and': '&', 'or': '|', 'xor': '^'}.get(rmw)
            r = self._local(f, ins.res)
            decls.append('%s %s;' % (self.cty(ins.ty), r))
            lines.append('  %s = *%s;' % (r, p))
            if rmw == 'xchg':
                lines.append('  *%s = %s;' % (p, v))
            elif sym:
                lines.append('  *%s = (%s)(%s %s %s);' % (p, self.cty(ins.ty), r, sym, v))
            else:
                raise Unsupported('atomicrmw %s' % rmw)
            return
        raise Unsupported('instruction %s (line %d)' % (op, ins.line))

    def call(self, f, b, ins, lines, decls, edge):
        cv = lambda v: self.cval(v, f)
        callee = ins.extra['callee']
        args = ins.ops

        def finish():
            if ins.op == 'invoke':
                lines.extend(edge(b.name, ins.extra['normal']))

        def setres(expr):
            if ins.res is not None and ins.ty.kind != 'void':
                self.assign(f, ins, expr, lines, decls)
            else:
                lines.append('  %s;' % expr)

        if callee.kind != 'global':
            if callee.kind == 'cexpr' and callee.v == 'bitcast' and callee.args[0].kind == 'global':
                callee = callee.args[0]
            else:
                lines.append('  VERIF_UNSUPPORTED("indirect call");')
                if ins.res is not None and ins.ty.kind != 'void':
                    r = self._local(f, ins.res)
                    decls.append('%s %s;' % (self.cty(ins.ty), r))
                    lines.append('  VERIF_HAVOC(%s);' % r)
                self.warnings.append('indirect call in %s' % f.name)
                finish()
                return
        name = callee.v
        for pat, repl in self.cuts.items():
            if re.fullmatch(pat, name):
                name = repl
                break
        tag = self.classify_external(name)
        target = self.m.functions.get(name)
        if target is not None and not target.is_decl:
            tag = None if not name.startswith('verif_') else tag
        if tag == 'intrinsic':
            self.intrinsic(f, ins, name, args, lines, decls, setres)
            finish()
            return
        if tag == 'verif':
            a = [cv(x) for x in args]
            if name == 'verif_assert':
                label = self.const_string(args[1])
                if label is not None:
                    lines.append('  VERIF_ASSERT_L(%s, "VERIF-OBLIGATION: %s");' % (a[0], re.sub(r'[^A-Za-z0-9 _.,:;=<>()+*/\[\]\'!?|&%%^~#@-]', '_', label)))
                    finish()
                    return
            if name.startswith('verif_nondet') or name in ('verif_assert', 'verif_reach'):
                # names are string constants: pass through as pointer
                pass
            setres('%s(%s)' % (name, ', '.join('(%s)%s' % ('const void*', x) if args[i].ty.kind == 'ptr' else x for i, x in enumerate(a))))
            finish()
            return
        if tag == 'noreturn':
            if name in ('__cxa_throw', 'verif_validate_fail') or 'throw' in name:
                lines.append('  verif_throw_hook();')
                self.need_func_if_defined('verif_throw_hook')
            lines.append('  VERIF_PATH_END(); /* %s */' % name)
            return
        if tag == 'libm':
            self.libm_used.add(name)
            setres('VERIF_LIBM_%s(%s)' % (name, ', '.join(cv(x) for x in args)))
            finish()
            return
        if tag == 'libc':
            if name == 'sincos':
                self.libm_used.add('sin')
                self.libm_used.add('cos')
                lines.append('  *%s = VERIF_LIBM_sin(%s); *%s = VERIF_LIBM_cos(%s);' % (cv(args[1]), cv(args[0]), cv(args[2]), cv(args[0])))
            else:
                setres('%s(%s)' % (name, ', '.join(cv(x) for x in args)))
            finish()
            return
        if tag == 'alloc':
            if name == 'calloc':
                setres('((%s)verif_alloc((%s) * (%s)))' % (self.cty(ins.ty), cv(args[0]), cv(args[1])))
            else:
                setres('((%s)verif_alloc(%s))' % (self.cty(ins.ty), cv(args[0])))
            finish()
            return
        if tag == 'noop':
            if ins.res is not None and ins.ty.kind != 'void':
                self.assign(f, ins, '((%s)0)' % self.cty(ins.ty), lines, decls)
            finish()
            return
        if target is None:
            raise Unsupported('call to unknown @%s' % name)
        self.need_func(name)
        cname = self.fname(name)
        a = []
        for i, x in enumerate(args):
            e = cv(x)
            if i < len(target.params):
                pt = target.params[i][0]
                if pt.s() != x.ty.s():
                    if pt.kind == 'ptr' or pt.kind == 'int':
                        e = '((%s)%s)' % (self.cty(pt), e)
            a.append(e)
        expr = '%s(%s)' % (cname, ', '.join(a))
        if ins.res is not None and ins.ty.kind != 'void':
            if target.ret.s() != ins.ty.s() and ins.ty.kind == 'ptr':
                expr = '((%s)%s)' % (self.cty(ins.ty), expr)
            self.assign(f, ins, expr, lines, decls)
        else:
            lines.append('  %s;' % expr)
        finish()

    def leaf_paths(self, t, prefix, out):
        if len(out) > 64:
            return
        if t.kind == 'struct':
            d = self.L.struct_def(t)
            for i, ft in enumerate(d.fields):
                self.leaf_paths(ft, '%s.f%d' % (prefix, i), out)
        elif t.kind == 'array':
            for i in range(t.n):
                self.leaf_paths(t.elem, '%s.a[%d]' % (prefix, i), out)
                if len(out) > 64:
                    return
        else:
            out.append(prefix)

    def const_string(self, v):
        if v.kind == 'cexpr' and v.v in ('getelementptr', 'bitcast') and v.args[0].kind == 'global':
            g = self.m.globals.get(v.args[0].v)
            if g is not None and g.init is not None and g.init.kind == 'cstr':
                return g.init.v.split(b'\0')[0].decode('latin1')
        if v.kind == 'global':
            g = self.m.globals.get(v.v)
            if g is not None and g.init is not None and g.init.kind == 'cstr':
                return g.init.v.split(b'\0')[0].decode('latin1')
        return None

    def typed_fill(self, out, lv, t, lo, hi, byte):
        """assignments setting bytes [lo,hi) (relative to the start of lvalue `lv` of type t) to `byte`; False if a scalar
        would be covered only partially"""
        size = self.L.size(t)
        if hi <= 0 or lo >= size:
            return True
        full = lo <= 0 and hi >= size
        k = t.kind
        if k in ('int', 'float', 'ptr'):
            if not full:
                return False
            if k == 'int':
                val = 0
                for i in range(size):
                    val |= byte << (8 * i)
                val &= (1 << t.bits) - 1 if t.bits < 8 * size else (1 << (8 * size)) - 1
                out.append('  %s = %s;' % (lv, self.cval(Val('int', t, val))))
            elif byte == 0:
                out.append('  %s = %s;' % (lv, '0.0' if k == 'float' else '((%s)0)' % self.cty(t)))
            else:
                return False
            return True
        if k == 'struct':
            d = self.L.struct_def(t)
            if full and byte == 0:
                out.append('  %s = (%s){0};' % (lv, self.cty(t)))
                return True
            for i, ft in enumerate(d.fields):
                fo = self.L.field_offset(t, i)
                if not self.typed_fill(out, '%s.f%d' % (lv, i), ft, lo - fo, hi - fo, byte):
                    return False
            return True
        if k == 'array':
            if full and byte == 0:
                out.append('  %s = (%s){0};' % (lv, self.cty(t)))
                return True
            es = self.L.size(t.elem)
            if t.n > 4096:
                return False
            for i in range(t.n):
                if (i + 1) * es <= lo or i * es >= hi:
                    continue
                if not self.typed_fill(out, '%s.a[%d]' % (lv, i), t.elem, lo - i * es, hi - i * es, byte):
                    return False
            return True
        return False

    def typed_src(self, v):
        """(value, pointee type) looking through bitcasts / zero-index GEPs to the typed origin of an i8* operand"""
        seen = 0
        t = v.ty.elem if v.ty.kind == 'ptr' else None
        while seen < 8:
            seen += 1
            if v.kind == 'local':
                d = self.cur_defs.get(v.v)
                if d is not None and d.op == 'bitcast' and d.ops[0].ty.kind == 'ptr':
                    v = d.ops[0]
                    t = v.ty.elem
                    continue
            elif v.kind == 'cexpr' and v.v == 'bitcast' and v.args[0].ty.kind == 'ptr':
                v = v.args[0]
                t = v.ty.elem
                continue
            break
        if t is not None and t.kind == 'int' and t.bits == 8:
            return v, None
        return v, t

    def need_func_if_defined(self, name):
        fn = self.m.functions.get(name)
        if fn is not None and not fn.is_decl:
            self.need_func(name)

    def intrinsic(self, f, ins, name, args, lines, decls, setres):
        cv = lambda v: self.cval(v, f)
        n = name[5:]
        base = n.split('.')[0]
        if base in ('lifetime', 'dbg', 'experimental', 'prefetch', 'stackrestore', 'donothing', 'var', 'invariant'):
            if ins.res is not None and ins.ty.kind != 'void':
                self.assign(f, ins, '((%s)0)' % self.cty(ins.ty), lines, decls)
            return
        if base == 'stacksave':
            self.assign(f, ins, '((%s)0)' % self.cty(ins.ty), lines, decls)
            return
        if base in ('memcpy', 'memmove'):
            n = args[2]
            if n.kind == 'int':
                td, ts = self.typed_src(args[0]), self.typed_src(args[1])
                for (pv, pt) in (td, ts):
                    if pt is None or pt.kind not in ('struct', 'array', 'int', 'float', 'ptr'):
                        continue
                    try:
                        sz = self.L.size(pt)
                    except Exception:
                        continue
                    if sz and n.v % sz == 0 and n.v > 0:
                        k = n.v // sz
                        at = pt if k == 1 else llir.ArrTy(k, pt)
                        ct = self.cty(at)
                        leaves = []
                        self.leaf_paths(at, '', leaves)
                        if self.opts.get('memcpy_fieldwise', True) and 0 < len(leaves) <= 64:
                            lines.append('  { %s *verif_d = (%s*)%s; %s *verif_s = (%s*)%s; /* field-wise memcpy %d */' % (ct, ct, cv(args[0]), ct, ct, cv(args[1]), n.v))
                            for lp in leaves:
                                lines.append('    (*verif_d)%s = (*verif_s)%s;' % (lp, lp))
                            lines.append('  }')
                        else:
                            lines.append('  *(%s*)%s = *(%s*)%s; /* typed memcpy %d */' % (ct, cv(args[0]), ct, cv(args[1]), n.v))
                        return
            lines.append('  %s(%s, %s, %s);' % (base, cv(args[0]), cv(args[1]), cv(args[2])))
            return
        if base == 'memset':
            n = args[2]
            if n.kind == 'int' and args[1].kind == 'int' and n.v > 0:
                pv, pt = self.typed_src(args[0])
                if pt is not None and pt.kind in ('struct', 'array', 'int', 'float', 'ptr'):
                    out = []
                    try:
                        # the region may span several consecutive elements of the pointee type
                        sz = self.L.size(pt)
                        k = 0
                        ok = sz > 0
                        while ok and k * sz < n.v:
                            lv = '((%s*)%s)[%d]' % (self.cty(pt), cv(args[0]), k)
                            ok = self.typed_fill(out, lv, pt, 0, min(sz, n.v - k * sz), args[1].v)
                            k += 1
                            if k > 64:
                                ok = False
                    except Unsupported:
                        ok = False
                    if ok:
                        lines.append('  /* typed memset %d bytes of %d */' % (n.v, args[1].v))
                        lines.extend(out)
                        return
            lines.append('  memset(%s, %s, %s);' % (cv(args[0]), cv(args[1]), cv(args[2])))
            return
        if base == 'assume':
            lines.append('  VERIF_LLVM_ASSUME(%s);' % cv(args[0]))
            return
        if base in ('expect',):
            setres(cv(args[0]))
            return
        if base == 'trap' or base == 'debugtrap':
            lines.append('  VERIF_TRAP();')
            return
        if base == 'is':
            setres('((%s)0)' % self.cty(ins.ty))
            return
        if base == 'objectsize':
            setres('((%s)-1)' % self.cty(ins.ty))
            return
        fl = ins.ty.kind == 'float' and ins.ty.bits == 32
        sfx = 'f' if fl else ''
        simple = {'fabs': 'fabs', 'sqrt': 'sqrt', 'floor': 'floor', 'ceil': 'ceil', 'trunc': 'trunc', 'round': 'round',
                  'rint': 'rint', 'nearbyint': 'nearbyint', 'minnum': 'fmin', 'maxnum': 'fmax', 'copysign': 'copysign',
                  'fma': 'fma', 'roundeven': 'rint'}
        if base in simple:
            setres('%s%s(%s)' % (simple[base], sfx, ', '.join(cv(x) for x in args)))
            return
        if base == 'fmuladd':
            setres('VERIF_FMULADD%s(%s)' % (sfx.upper(), ', '.join(cv(x) for x in args)))
            return
        if base in ('exp', 'log', 'sin', 'cos', 'pow', 'exp2', 'log2', 'log10'):
            nm = base + sfx
            self.libm_used.add(nm)
            setres('VERIF_LIBM_%s(%s)' % (nm, ', '.join(cv(x) for x in args)))
            return
        if base == 'powi':
            self.libm_used.add('pow')
            setres('VERIF_LIBM_pow(%s, (double)(int32_t)%s)' % (cv(args[0]), cv(args[1])))
            return
        t = ins.ty
        if base in ('umin', 'umax'):
            sym = '<' if base == 'umin' else '>'
            setres('(%s %s %s ? %s : %s)' % (cv(args[0]), sym, cv(args[1]), cv(args[0]), cv(args[1])))
            return
        if base in ('smin', 'smax'):
            sym = '<' if base == 'smin' else '>'
            setres('(%s %s %s ? %s : %s)' % (self.sext(t, cv(args[0])), sym, self.sext(t, cv(args[1])), cv(args[0]), cv(args[1])))
            return
        if base == 'abs':
            setres('((%s)(%s < 0 ? -%s : %s))' % (self.cty(t), self.sext(t, cv(args[0])), self.sext(t, cv(args[0])), self.sext(t, cv(args[0]))))
            return
        if base in ('ctpop', 'ctlz', 'cttz'):
            w = t.bits
            if w not in (32, 64):
                raise Unsupported('%s on i%d' % (base, w))
            setres('((%s)verif_%s%d(%s))' % (self.cty(t), base, w, cv(args[0])))
            return
        if base in ('uadd', 'usub', 'umul', 'sadd', 'ssub', 'smul') and 'with.overflow' in n:
            # {iN, i1}
            rt = ins.ty
            inner = self.L.struct_def(rt).fields[0]
            r = self._local(f, ins.res)
            decls.append('%s %s;' % (self.cty(rt), r))
            bfn = {'add': '__builtin_add_overflow', 'sub': '__builtin_sub_overflow', 'mul': '__builtin_mul_overflow'}[base[1:]]
            cty = self.cty(inner) if base[0] == 'u' else self.sty(inner)
            lines.append('  { %s verif_t; %s.f1 = (uint8_t)%s((%s)%s, (%s)%s, &verif_t); %s.f0 = (%s)verif_t; }' % (
                cty, r, bfn, cty, cv(args[0]), cty, cv(args[1]), r, self.cty(inner)))
            return
        if base in ('fshl', 'fshr') and t.bits in (32, 64):
            w = t.bits
            a, b_, c = cv(args[0]), cv(args[1]), cv(args[2])
            if base == 'fshl':
                setres('((%s)((%s %% %d) ? ((%s << (%s %% %d)) | (%s >> (%d - (%s %% %d)))) : %s))' % (self.cty(t), c, w, a, c, w, b_, w, c, w, a))
            else:
                setres('((%s)((%s %% %d) ? ((%s << (%d - (%s %% %d))) | (%s >> (%s %% %d))) : %s))' % (self.cty(t), c, w, a, w, c, w, b_, c, w, b_))
            return
        if base == 'bswap' and t.bits in (32, 64):
            setres('__builtin_bswap%d(%s)' % (t.bits, cv(args[0])))
            return
        if base in ('usub', 'uadd') and 'sat' in n:
            a, b_ = cv(args[0]), cv(args[1])
            if base == 'usub':
                setres('((%s)(%s > %s ? %s - %s : 0))' % (self.cty(t), a, b_, a, b_))
            else:
                setres('((%s)((%s)(%s + %s) < %s ? (%s)-1 : (%s)(%s + %s)))' % (self.cty(t), self.cty(t), a, b_, a, self.cty(t), self.cty(t), a, b_))
            return
        raise Unsupported('intrinsic %s' % name)


def scan_attrs(text, mod):
    """noreturn externals and byval parameters from the raw IR text"""
    groups = {}
    for m in re.finditer(r'^attributes #(\d+) = \{([^}]*)\}', text, re.M):
        groups[m.group(1)] = m.group(2)
    noret = set()
    for m in re.finditer(r'^declare [^\n]*?@("(?:[^"\\]|\\.)*"|[-a-zA-Z$._0-9]+)\([^\n]*\)([^\n]*)$', text, re.M):
        name = m.group(1)
        if name.startswith('"'):
            name = name[1:-1]
        tail = m.group(2)
        for g in re.findall(r'#(\d+)', tail):
            if re.search(r'\bnoreturn\b', groups.get(g, '')):
                noret.add(name)
        if re.search(r'\bnoreturn\b', tail):
            noret.add(name)
    return noret


def translate(ll_path, entries, cuts=None, opts=None):
    text = open(ll_path).read()
    mod = llir.parse_module(text)
    em = Emitter(mod, entries, cuts, opts)
    em.noreturn = scan_attrs(text, mod)
    code = em.emit()
    info = {
        'functions_encoded': sorted(n for n in em.func_code if n not in em.ext_stubs),
        'external_stubs': sorted(em.ext_stubs),
        'libm': sorted(em.libm_used),
        'warnings': em.warnings,
    }
    return code, info


if __name__ == '__main__':
    import sys
    code, info = translate(sys.argv[1], sys.argv[3:])
    open(sys.argv[2], 'w').write(code)
    print(info)
