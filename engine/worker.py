"""one obligation per process:  python3-vt -m engine.worker <Cxx> <obligation id> <exclude_known 0|1> <out.json>"""
import importlib
import json
import sys


def main():
    prop, oid, excl, out = sys.argv[1:5]
    from engine import runner
    mod = importlib.import_module('obligations.' + prop)
    obl = [o for o in mod.OBLS if o.id == oid][0]
    r = runner.run_obligation_local(obl, excl == '1')
    with open(out, 'w') as f:
        json.dump(r, f, default=str)


if __name__ == '__main__':
    main()
