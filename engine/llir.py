"""Parser for the textual LLVM-14 IR subset that clang -O1 emits for the harness TUs.

Produces a Module with named struct types, globals (with initialisers) and
functions (blocks of Instr).  Typed pointers (LLVM 14 default) are relied on.
"""
import re
import struct as _struct

# ---------------------------------------------------------------------------
# Types


class Ty:
    kind = '?'

    def __repr__(self):
        return self.s()


class VoidTy(Ty):
    kind = 'void'

    def s(self):
        return 'void'


class IntTy(Ty):
    kind = 'int'

    def __init__(self, bits):
        self.bits = bits

    def s(self):
        return 'i%d' % self.bits


class FloatTy(Ty):
    kind = 'float'

    def __init__(self, name):
        self.name = name  # 'float' 'double' 'half' 'x86_fp80'
        self.bits = {'half': 16, 'float': 32, 'double': 64, 'x86_fp80': 80, 'fp128': 128}[name]

    def s(self):
        return self.name


class PtrTy(Ty):
    kind = 'ptr'

    def __init__(self, elem):
        self.elem = elem

    def s(self):
        return self.elem.s() + '*'


class ArrTy(Ty):
    kind = 'array'

    def __init__(self, n, elem):
        self.n = n
        self.elem = elem

    def s(self):
        return '[%d x %s]' % (self.n, self.elem.s())


class VecTy(Ty):
    kind = 'vector'

    def __init__(self, n, elem):
        self.n = n
        self.elem = elem

    def s(self):
        return '<%d x %s>' % (self.n, self.elem.s())


class StructTy(Ty):
    kind = 'struct'

    def __init__(self, fields, packed=False, name=None, opaque=False):
        self.fields = fields
        self.packed = packed
        self.name = name
        self.opaque = opaque

    def s(self):
        if self.name:
            if re.fullmatch(r'[-a-zA-Z$._0-9]+', self.name):
                return '%' + self.name
            return '%"' + self.name + '"'
        body = ', '.join(f.s() for f in self.fields)
        return ('<{ %s }>' if self.packed else '{ %s }') % body


class FuncTy(Ty):
    kind = 'func'

    def __init__(self, ret, params, vararg):
        self.ret = ret
        self.params = params
        self.vararg = vararg

    def s(self):
        return '%s (%s%s)' % (self.ret.s(), ', '.join(p.s() for p in self.params), ', ...' if self.vararg else '')


class MiscTy(Ty):
    def __init__(self, kind):
        self.kind = kind

    def s(self):
        return self.kind


VOID = VoidTy()
_int_cache = {}


def int_ty(bits):
    if bits not in _int_cache:
        _int_cache[bits] = IntTy(bits)
    return _int_cache[bits]


I1, I8, I32, I64 = int_ty(1), int_ty(8), int_ty(32), int_ty(64)
DOUBLE = FloatTy('double')
FLOAT = FloatTy('float')


def ty_eq(a, b):
    return a.s() == b.s()


# ---------------------------------------------------------------------------
# Data layout (x86-64 SysV)


class Layout:
    def __init__(self, module):
        self.m = module
        self._cache = {}

    def resolve(self, t):
        while t.kind == 'struct' and t.name and not t.fields and not t.opaque and t.name in self.m.types:
            t2 = self.m.types[t.name]
            if t2 is t:
                break
            t = t2
        return t

    def size_align(self, t):
        key = t.s()
        if key in self._cache:
            return self._cache[key]
        r = self._size_align(t)
        self._cache[key] = r
        return r

    def _size_align(self, t):
        k = t.kind
        if k == 'int':
            b = t.bits
            sz = 1
            while sz * 8 < b:
                sz *= 2
            return sz, min(sz, 16) if sz <= 8 else 16
        if k == 'float':
            return {16: (2, 2), 32: (4, 4), 64: (8, 8), 80: (16, 16), 128: (16, 16)}[t.bits]
        if k == 'ptr':
            return 8, 8
        if k == 'array':
            s, a = self.size_align(t.elem)
            return s * t.n, a
        if k == 'vector':
            s, a = self.size_align(t.elem)
            tot = s * t.n
            al = 1
            while al < tot:
                al *= 2
            return tot, al
        if k == 'struct':
            t = self.struct_def(t)
            off = 0
            al = 1
            for f in t.fields:
                s, a = self.size_align(f)
                if t.packed:
                    a = 1
                off = (off + a - 1) // a * a
                off += s
                al = max(al, a)
            off = (off + al - 1) // al * al
            return off, al
        raise ValueError('size of %s' % t.s())

    def struct_def(self, t):
        if t.name and t.name in self.m.types:
            return self.m.types[t.name]
        return t

    def size(self, t):
        return self.size_align(t)[0]

    def field_offset(self, t, idx):
        t = self.struct_def(t)
        off = 0
        for i, f in enumerate(t.fields):
            s, a = self.size_align(f)
            if t.packed:
                a = 1
            off = (off + a - 1) // a * a
            if i == idx:
                return off
            off += s
        raise IndexError(idx)


# ---------------------------------------------------------------------------
# Values / instructions


class Val:
    """kind: local | global | int | float | null | undef | zero | struct | array | cstr | cexpr | meta | blockaddr"""
    __slots__ = ('kind', 'ty', 'v', 'args', 'extra')

    def __init__(self, kind, ty, v=None, args=None, extra=None):
        self.kind = kind
        self.ty = ty
        self.v = v
        self.args = args
        self.extra = extra

    def __repr__(self):
        return 'Val(%s %s %r %r)' % (self.kind, self.ty, self.v, self.args)


class Instr:
    __slots__ = ('op', 'res', 'ty', 'ops', 'extra', 'line')

    def __init__(self, op, res, ty, ops, extra=None, line=0):
        self.op = op
        self.res = res      # result local name or None
        self.ty = ty        # result type
        self.ops = ops      # operand Vals
        self.extra = extra or {}
        self.line = line

    def __repr__(self):
        return 'Instr(%s %s = %s %r %r)' % (self.op, self.res, self.ty, self.ops, self.extra)


class Block:
    def __init__(self, name):
        self.name = name
        self.instrs = []


class Function:
    def __init__(self, name, ret, params, vararg):
        self.name = name
        self.ret = ret
        self.params = params  # list of (Ty, name)
        self.vararg = vararg
        self.blocks = []      # empty => declaration
        self.bmap = {}

    @property
    def is_decl(self):
        return not self.blocks


class Global:
    def __init__(self, name, ty, init, const):
        self.name = name
        self.ty = ty
        self.init = init
        self.const = const


class Module:
    def __init__(self):
        self.types = {}
        self.globals = {}
        self.functions = {}
        self.layout = Layout(self)


# ---------------------------------------------------------------------------
# Tokeniser

_TOK = re.compile(r'''
    (?P<ws>\s+|;[^\n]*)
  | (?P<str>c?"(?:[^"\\]|\\.)*")
  | (?P<lq>%"(?:[^"\\]|\\.)*")
  | (?P<gq>@"(?:[^"\\]|\\.)*")
  | (?P<local>%[-a-zA-Z$._0-9]+)
  | (?P<glob>@[-a-zA-Z$._0-9]+)
  | (?P<meta>![-a-zA-Z$._0-9]*)
  | (?P<attr>\#[0-9]+)
  | (?P<comdat>\$[-a-zA-Z$._0-9]+|\$"(?:[^"\\]|\\.)*")
  | (?P<hex>0x[KLMHR]?[0-9a-fA-F]+)
  | (?P<num>[-+]?[0-9]+(?:\.[0-9]*(?:[eE][-+]?[0-9]+)?)?)
  | (?P<dots>\.\.\.)
  | (?P<id>[a-zA-Z_][-a-zA-Z$._0-9]*)
  | (?P<p>[(){}\[\]<>=,*:|])
''', re.X)


def tokenize(line):
    out = []
    pos = 0
    n = len(line)
    while pos < n:
        m = _TOK.match(line, pos)
        if not m:
            raise SyntaxError('cannot tokenize at %r' % line[pos:pos + 40])
        pos = m.end()
        k = m.lastgroup
        if k == 'ws':
            continue
        t = m.group(k)
        if k == 'lq':
            out.append(('local', _unq(t[1:])))
        elif k == 'gq':
            out.append(('glob', _unq(t[1:])))
        elif k == 'local':
            out.append(('local', t[1:]))
        elif k == 'glob':
            out.append(('glob', t[1:]))
        else:
            out.append((k, t))
    return out


def _unq(s):
    s = s[1:-1]
    return re.sub(r'\\([0-9a-fA-F]{2})', lambda m: chr(int(m.group(1), 16)), s)


def _cstr_bytes(tok):
    s = tok[2:-1]
    out = bytearray()
    i = 0
    while i < len(s):
        if s[i] == '\\':
            if s[i + 1] == '\\':
                out.append(92)
                i += 2
            else:
                out.append(int(s[i + 1:i + 3], 16))
                i += 3
        else:
            out.append(ord(s[i]))
            i += 1
    return bytes(out)


CONST_KW = {'true', 'false', 'null', 'undef', 'poison', 'zeroinitializer', 'none'}
CEXPR_OPS = {'getelementptr', 'bitcast', 'inttoptr', 'ptrtoint', 'trunc', 'zext', 'sext', 'add', 'sub', 'mul',
             'and', 'or', 'xor', 'shl', 'lshr', 'ashr', 'icmp', 'select', 'addrspacecast', 'fptoui', 'fptosi',
             'uitofp', 'sitofp', 'fpext', 'fptrunc', 'fcmp', 'extractvalue', 'insertvalue', 'sdiv', 'udiv'}
BINOPS = {'add', 'sub', 'mul', 'udiv', 'sdiv', 'urem', 'srem', 'shl', 'lshr', 'ashr', 'and', 'or', 'xor',
          'fadd', 'fsub', 'fmul', 'fdiv', 'frem'}
CASTS = {'trunc', 'zext', 'sext', 'fptrunc', 'fpext', 'fptoui', 'fptosi', 'uitofp', 'sitofp', 'ptrtoint',
         'inttoptr', 'bitcast', 'addrspacecast'}
FLAGS = {'nuw', 'nsw', 'exact', 'inbounds', 'fast', 'nnan', 'ninf', 'nsz', 'arcp', 'contract', 'afn', 'reassoc',
         'volatile', 'tail', 'musttail', 'notail', 'atomic', 'weak'}


class P:
    """Token-stream parser for one logical line."""

    def __init__(self, toks, mod, line=0):
        self.t = toks
        self.i = 0
        self.m = mod
        self.line = line

    def peek(self, k=0):
        j = self.i + k
        return self.t[j] if j < len(self.t) else ('eof', '')

    def next(self):
        tok = self.peek()
        self.i += 1
        return tok

    def accept(self, val):
        if self.peek()[1] == val and self.peek()[0] in ('p', 'id', 'dots'):
            self.i += 1
            return True
        return False

    def expect(self, val):
        if not self.accept(val):
            raise SyntaxError('line %d: expected %r got %r (toks %r)' % (self.line, val, self.peek(), self.t[max(0, self.i - 5):self.i + 5]))

    def eof(self):
        return self.i >= len(self.t)

    # -- types
    def parse_type(self, force_func=False):
        k, v = self.next()
        if k == 'id':
            if v == 'void':
                t = VOID
            elif re.fullmatch(r'i[0-9]+', v):
                t = int_ty(int(v[1:]))
            elif v in ('float', 'double', 'half', 'x86_fp80', 'fp128'):
                t = FloatTy(v)
            elif v in ('label', 'metadata', 'token', 'ptr', 'opaque', 'x86_mmx'):
                t = MiscTy(v)
            else:
                raise SyntaxError('line %d: bad type token %r' % (self.line, v))
        elif k == 'local':
            t = self.m.types.get(v)
            if t is None:
                t = StructTy([], name=v)
                t.opaque = False
                self.m.types.setdefault(v, t)
                t = self.m.types[v]
        elif k == 'p' and v == '[':
            n = int(self.next()[1])
            self.expect('x')
            e = self.parse_type()
            self.expect(']')
            t = ArrTy(n, e)
        elif k == 'p' and v == '{':
            t = StructTy(self._fields('}'))
        elif k == 'p' and v == '<':
            if self.peek()[1] == '{':
                self.next()
                f = self._fields('}')
                self.expect('>')
                t = StructTy(f, packed=True)
            else:
                n = int(self.next()[1])
                self.expect('x')
                e = self.parse_type()
                self.expect('>')
                t = VecTy(n, e)
        else:
            raise SyntaxError('line %d: bad type start %r' % (self.line, (k, v)))
        # suffixes
        while True:
            if self.peek() == ('p', '*'):
                self.next()
                t = PtrTy(t)
            elif self.peek() == ('p', '(') and (force_func or self._looks_like_functype()):
                self.next()
                params = []
                vararg = False
                while not self.accept(')'):
                    if self.accept('...'):
                        vararg = True
                    else:
                        params.append(self.parse_type())
                    self.accept(',')
                t = FuncTy(t, params, vararg)
            elif self.peek()[0] == 'id' and self.peek()[1] == 'addrspace':
                self.next()
                self.expect('(')
                self.next()
                self.expect(')')
            else:
                break
        return t

    def _looks_like_functype(self):
        # a '(' directly after a type is a function type only inside type context:
        # scan to the matching ')' and require '*' afterwards
        depth = 0
        j = self.i
        while j < len(self.t):
            v = self.t[j][1]
            if self.t[j][0] == 'p' and v == '(':
                depth += 1
            elif self.t[j][0] == 'p' and v == ')':
                depth -= 1
                if depth == 0:
                    nxt = self.t[j + 1] if j + 1 < len(self.t) else ('eof', '')
                    return nxt == ('p', '*')
            j += 1
        return False

    def _fields(self, close):
        f = []
        if self.accept(close):
            return f
        while True:
            f.append(self.parse_type())
            if self.accept(close):
                return f
            self.expect(',')

    # -- attributes
    def skip_attrs(self):
        """skip parameter / return attributes up to the next value or ')' or ','"""
        while True:
            k, v = self.peek()
            if k == 'id' and v not in CONST_KW and v not in CEXPR_OPS and v not in ('c', 'to', 'label', 'unwind') and not re.fullmatch(r'i[0-9]+|float|double|void|half|x86_fp80', v):
                self.next()
                if self.peek() == ('p', '('):
                    self._skip_paren()
                elif v == 'align' and self.peek()[0] == 'num':
                    self.next()
            elif k == 'attr':
                self.next()
            else:
                return

    def _skip_paren(self):
        depth = 0
        while True:
            k, v = self.next()
            if k == 'p' and v == '(':
                depth += 1
            elif k == 'p' and v == ')':
                depth -= 1
                if depth == 0:
                    return
            elif k == 'eof':
                raise SyntaxError('unbalanced')

    # -- values
    def parse_value(self, ty):
        k, v = self.next()
        if k == 'local':
            return Val('local', ty, v)
        if k == 'glob':
            return Val('global', ty, v)
        if k == 'num':
            if ty.kind == 'float':
                return Val('float', ty, float(v))
            if ty.kind == 'int':
                return Val('int', ty, int(v) & ((1 << ty.bits) - 1))
            raise SyntaxError('line %d: numeric constant of type %s' % (self.line, ty.s()))
        if k == 'hex':
            if ty.kind == 'float':
                if v[2] in 'KLMHR':
                    return Val('float', ty, None, extra=v)
                bits = int(v, 16)
                d = _struct.unpack('<d', _struct.pack('<Q', bits))[0]
                return Val('float', ty, d)
            return Val('int', ty, int(v, 16) & ((1 << ty.bits) - 1))
        if k == 'id':
            if v == 'true':
                return Val('int', ty, 1)
            if v == 'false':
                return Val('int', ty, 0)
            if v == 'null' or v == 'none':
                return Val('null', ty)
            if v in ('undef', 'poison'):
                return Val('undef', ty)
            if v == 'zeroinitializer':
                return Val('zero', ty)
            if v == 'blockaddress':
                self._skip_paren()
                return Val('blockaddr', ty)
            if v == 'dso_local_equivalent' or v == 'no_cfi':
                return self.parse_value(ty)
            if v in CEXPR_OPS:
                return self.parse_cexpr(v, ty)
            raise SyntaxError('line %d: value keyword %r' % (self.line, v))
        if k == 'str':
            return Val('cstr', ty, _cstr_bytes(v))
        if k == 'p' and v == '{':
            return Val('struct', ty, args=self._agg('}'))
        if k == 'p' and v == '[':
            return Val('array', ty, args=self._agg(']'))
        if k == 'p' and v == '<':
            if self.peek() == ('p', '{'):
                self.next()
                a = self._agg('}')
                self.expect('>')
                return Val('struct', ty, args=a)
            return Val('array', ty, args=self._agg('>'))
        if k == 'meta':
            # metadata operand: skip possible balanced body
            if self.peek() == ('p', '('):
                self._skip_paren()
            elif self.peek() == ('p', '{'):
                depth = 0
                while True:
                    kk, vv = self.next()
                    if vv == '{':
                        depth += 1
                    elif vv == '}':
                        depth -= 1
                        if depth == 0:
                            break
            elif self.peek()[0] == 'str':
                self.next()
            return Val('meta', ty, v)
        raise SyntaxError('line %d: bad value %r' % (self.line, (k, v)))

    def _agg(self, close):
        out = []
        if self.accept(close):
            return out
        while True:
            out.append(self.parse_tv())
            if self.accept(close):
                return out
            self.expect(',')

    def parse_tv(self):
        ty = self.parse_type()
        self.skip_attrs()
        return self.parse_value(ty)

    def parse_cexpr(self, op, ty):
        flags = []
        while self.peek()[0] == 'id' and self.peek()[1] in FLAGS:
            flags.append(self.next()[1])
        pred = None
        if op in ('icmp', 'fcmp'):
            pred = self.next()[1]
        self.expect('(')
        if op == 'getelementptr':
            src = self.parse_type()
            self.expect(',')
            args = [self.parse_tv()]
            while self.accept(','):
                if self.peek() == ('id', 'inrange'):
                    self.next()
                args.append(self.parse_tv())
            self.expect(')')
            return Val('cexpr', ty, 'getelementptr', args, extra={'src': src, 'flags': flags})
        if op in CASTS:
            a = self.parse_tv()
            self.expect('to')
            to = self.parse_type()
            self.expect(')')
            return Val('cexpr', to, op, [a])
        args = [self.parse_tv()]
        while self.accept(','):
            if self.peek()[0] == 'num' and op in ('extractvalue', 'insertvalue'):
                args.append(Val('int', I32, int(self.next()[1])))
            else:
                args.append(self.parse_tv())
        self.expect(')')
        rty = ty
        if op in ('icmp', 'fcmp'):
            rty = I1
        return Val('cexpr', rty, op, args, extra={'pred': pred, 'flags': flags})


# ---------------------------------------------------------------------------
# Module parser


def parse_module(text):
    mod = Module()
    lines = text.split('\n')
    # pass 1: type definitions (so forward references resolve)
    for ln, line in enumerate(lines):
        if line.startswith('%') and ' = type ' in line:
            toks = tokenize(line)
            name = toks[0][1]
            mod.types.setdefault(name, StructTy([], name=name))
    for ln, line in enumerate(lines):
        if line.startswith('%') and ' = type ' in line:
            toks = tokenize(line)
            p = P(toks, mod, ln + 1)
            name = p.next()[1]
            p.expect('=')
            p.expect('type')
            st = mod.types[name]
            if p.peek() == ('id', 'opaque'):
                st.opaque = True
            else:
                body = p.parse_type()
                st.fields = body.fields
                st.packed = body.packed
    i = 0
    n = len(lines)
    while i < n:
        line = lines[i]
        if line.startswith('@'):
            _parse_global(mod, line, i + 1)
        elif line.startswith('declare '):
            _parse_func_header(mod, line, i + 1, decl=True)
        elif line.startswith('define '):
            f = _parse_func_header(mod, line, i + 1, decl=False)
            i += 1
            cur = None
            while not lines[i].startswith('}'):
                l = lines[i]
                i += 1
                s = l.strip()
                if not s or s.startswith(';'):
                    continue
                m = re.match(r'^([-a-zA-Z$._0-9]+|"(?:[^"\\]|\\.)*"):', l)
                if m:
                    nm = m.group(1)
                    if nm.startswith('"'):
                        nm = _unq(nm)
                    cur = Block(nm)
                    f.blocks.append(cur)
                    f.bmap[nm] = cur
                    continue
                if cur is None:
                    # entry block gets the next free numeric name
                    nm = str(len(f.params)) if all(re.fullmatch(r'[0-9]+', p[1] or '') for p in f.params) else str(_first_free(f))
                    cur = Block(nm)
                    f.blocks.append(cur)
                    f.bmap[nm] = cur
                if (' invoke ' in l or s.startswith('invoke ')) and lines[i].lstrip().startswith('to label'):
                    l = l + ' ' + lines[i]
                    i += 1
                ins = _parse_instr(mod, l, i)
                # switch continues across lines
                if ins is None:
                    continue
                if ins.op == 'switch' and ins.extra.get('open'):
                    while True:
                        l2 = lines[i].strip()
                        i += 1
                        if l2.startswith(']'):
                            break
                        p = P(tokenize(l2), mod, i)
                        cv = p.parse_tv()
                        p.expect(',')
                        p.expect('label')
                        lab = p.next()[1]
                        ins.extra['cases'].append((cv.v, lab))
                    del ins.extra['open']
                cur.instrs.append(ins)
        i += 1
    return mod


def _first_free(f):
    nums = [int(p[1]) for p in f.params if p[1] and re.fullmatch(r'[0-9]+', p[1])]
    return (max(nums) + 1) if nums else 0


_LINKAGE = {'private', 'internal', 'available_externally', 'linkonce', 'weak', 'common', 'appending', 'extern_weak',
            'linkonce_odr', 'weak_odr', 'external', 'dso_local', 'dso_preemptable', 'default', 'hidden', 'protected',
            'unnamed_addr', 'local_unnamed_addr', 'thread_local', 'externally_initialized', 'dllimport', 'dllexport'}


def _parse_global(mod, line, ln):
    toks = tokenize(line)
    p = P(toks, mod, ln)
    name = p.next()[1]
    p.expect('=')
    is_const = False
    external = False
    while True:
        k, v = p.peek()
        if k == 'id' and v in _LINKAGE:
            if v in ('external', 'extern_weak', 'available_externally'):
                external = True
            p.next()
            if v == 'thread_local' and p.peek() == ('p', '('):
                p._skip_paren()
        elif k == 'id' and v == 'addrspace':
            p.next()
            p._skip_paren()
        else:
            break
    k, v = p.next()
    if v == 'alias' or v == 'ifunc':
        ty = p.parse_type(force_func=True)
        p.expect(',')
        target = p.parse_tv()
        mod.globals[name] = Global(name, ty, target, True)
        mod.globals[name].alias = True
        return
    is_const = (v == 'constant')
    ty = p.parse_type()
    init = None
    if not p.eof() and p.peek() != ('p', ','):
        if not (external and p.peek()[0] == 'id' and p.peek()[1] in ('align', 'section', 'comdat')):
            init = p.parse_value(ty)
    g = Global(name, ty, init, is_const)
    g.alias = False
    mod.globals[name] = g


def _parse_func_header(mod, line, ln, decl):
    toks = tokenize(line)
    p = P(toks, mod, ln)
    p.next()  # define/declare
    while p.peek()[0] == 'id' and (p.peek()[1] in _LINKAGE or p.peek()[1] in ('fastcc', 'ccc', 'coldcc', 'cc')):
        p.next()
    p.skip_attrs()
    ret = p.parse_type()
    # after return type there may be nothing but the name
    k, name = p.next()
    if k != 'glob':
        raise SyntaxError('line %d: function name, got %r' % (ln, (k, name)))
    p.expect('(')
    params = []
    vararg = False
    while not p.accept(')'):
        if p.accept('...'):
            vararg = True
            continue
        t = p.parse_type()
        p.skip_attrs()
        pname = None
        if p.peek()[0] == 'local':
            pname = p.next()[1]
        params.append((t, pname))
        p.accept(',')
    # unnamed parameters are numbered
    cnt = 0
    out = []
    for (t, nm) in params:
        if nm is None:
            nm = str(cnt)
            cnt += 1
        elif re.fullmatch(r'[0-9]+', nm):
            cnt = int(nm) + 1
        out.append((t, nm))
    f = Function(name, ret, out, vararg)
    if decl and name in mod.functions and not mod.functions[name].is_decl:
        return mod.functions[name]
    mod.functions[name] = f
    return f


def _lab(p):
    p.expect('label')
    return p.next()[1]


def _parse_instr(mod, line, ln):
    toks = tokenize(line)
    if not toks:
        return None
    p = P(toks, mod, ln)
    res = None
    if p.peek()[0] == 'local' and p.peek(1) == ('p', '='):
        res = p.next()[1]
        p.next()
    k, op = p.next()
    flags = []
    if op in ('cleanup', 'catch', 'filter'):
        return None

    def eat_flags():
        while p.peek()[0] == 'id' and p.peek()[1] in FLAGS:
            flags.append(p.next()[1])

    if op in ('tail', 'musttail', 'notail'):
        k, op = p.next()
    if op in BINOPS:
        eat_flags()
        ty = p.parse_type()
        a = p.parse_value(ty)
        p.expect(',')
        b = p.parse_value(ty)
        return Instr(op, res, ty, [a, b], {'flags': flags}, ln)
    if op == 'fneg':
        eat_flags()
        ty = p.parse_type()
        a = p.parse_value(ty)
        return Instr(op, res, ty, [a], {}, ln)
    if op in CASTS:
        a = p.parse_tv()
        p.expect('to')
        to = p.parse_type()
        return Instr(op, res, to, [a], {}, ln)
    if op in ('icmp', 'fcmp'):
        eat_flags()
        pred = p.next()[1]
        ty = p.parse_type()
        a = p.parse_value(ty)
        p.expect(',')
        b = p.parse_value(ty)
        rty = I1 if ty.kind != 'vector' else VecTy(ty.n, I1)
        return Instr(op, res, rty, [a, b], {'pred': pred}, ln)
    if op == 'select':
        eat_flags()
        c = p.parse_tv()
        p.expect(',')
        a = p.parse_tv()
        p.expect(',')
        b = p.parse_tv()
        return Instr(op, res, a.ty, [c, a, b], {}, ln)
    if op == 'phi':
        eat_flags()
        ty = p.parse_type()
        inc = []
        while True:
            p.expect('[')
            v = p.parse_value(ty)
            p.expect(',')
            lab = p.next()[1]
            p.expect(']')
            inc.append((v, lab))
            if not p.accept(','):
                break
        return Instr(op, res, ty, [v for v, _ in inc], {'labels': [l for _, l in inc]}, ln)
    if op == 'alloca':
        if p.peek() == ('id', 'inalloca'):
            p.next()
        ty = p.parse_type()
        cnt = None
        if p.accept(','):
            if p.peek() == ('id', 'align'):
                pass
            else:
                cnt = p.parse_tv()
        return Instr(op, res, PtrTy(ty), [cnt] if cnt else [], {'alloc_ty': ty}, ln)
    if op == 'load':
        eat_flags()
        ty = p.parse_type()
        p.expect(',')
        a = p.parse_tv()
        return Instr(op, res, ty, [a], {}, ln)
    if op == 'store':
        eat_flags()
        v = p.parse_tv()
        p.expect(',')
        a = p.parse_tv()
        return Instr(op, None, VOID, [v, a], {}, ln)
    if op == 'getelementptr':
        eat_flags()
        src = p.parse_type()
        p.expect(',')
        args = [p.parse_tv()]
        while p.accept(','):
            args.append(p.parse_tv())
        rty = _gep_result_type(mod, src, args)
        return Instr(op, res, rty, args, {'src': src, 'flags': flags}, ln)
    if op == 'extractvalue':
        a = p.parse_tv()
        idx = []
        while p.accept(','):
            idx.append(int(p.next()[1]))
        t = a.ty
        for ix in idx:
            t = _agg_elem(mod, t, ix)
        return Instr(op, res, t, [a], {'idx': idx}, ln)
    if op == 'insertvalue':
        a = p.parse_tv()
        p.expect(',')
        b = p.parse_tv()
        idx = []
        while p.accept(','):
            idx.append(int(p.next()[1]))
        return Instr(op, res, a.ty, [a, b], {'idx': idx}, ln)
    if op in ('extractelement', 'insertelement', 'shufflevector'):
        args = [p.parse_tv()]
        while p.accept(','):
            args.append(p.parse_tv())
        if op == 'extractelement':
            rty = args[0].ty.elem
        elif op == 'insertelement':
            rty = args[0].ty
        else:
            rty = VecTy(args[2].ty.n, args[0].ty.elem)
        return Instr(op, res, rty, args, {}, ln)
    if op == 'br':
        if p.peek() == ('id', 'label'):
            return Instr('br', None, VOID, [], {'dest': _lab(p)}, ln)
        c = p.parse_tv()
        p.expect(',')
        t = _lab(p)
        p.expect(',')
        f = _lab(p)
        return Instr('condbr', None, VOID, [c], {'t': t, 'f': f}, ln)
    if op == 'switch':
        v = p.parse_tv()
        p.expect(',')
        d = _lab(p)
        p.expect('[')
        cases = []
        opened = True
        while not p.eof():
            if p.accept(']'):
                opened = False
                break
            cv = p.parse_tv()
            p.expect(',')
            cases.append((cv.v, _lab(p)))
        ex = {'default': d, 'cases': cases}
        if opened:
            ex['open'] = True
        return Instr('switch', None, VOID, [v], ex, ln)
    if op == 'ret':
        ty = p.parse_type()
        if ty.kind == 'void':
            return Instr('ret', None, VOID, [], {}, ln)
        return Instr('ret', None, VOID, [p.parse_value(ty)], {}, ln)
    if op == 'unreachable':
        return Instr('unreachable', None, VOID, [], {}, ln)
    if op in ('call', 'invoke'):
        eat_flags()
        while p.peek()[0] == 'id' and p.peek()[1] in ('fastcc', 'ccc', 'coldcc'):
            p.next()
        p.skip_attrs()
        rty = p.parse_type()
        fty = None
        if rty.kind == 'ptr' and rty.elem.kind == 'func' and p.peek()[0] in ('glob', 'local') and p.peek(1) == ('p', '('):
            # explicit function pointer type
            fty = rty.elem
            rty = fty.ret
        elif rty.kind == 'func':
            fty = rty
            rty = fty.ret
        callee = p.parse_value(PtrTy(fty) if fty else PtrTy(VOID))
        p.expect('(')
        args = []
        while not p.accept(')'):
            t = p.parse_type()
            p.skip_attrs()
            args.append(p.parse_value(t))
            p.accept(',')
        ex = {'callee': callee}
        if op == 'invoke':
            p.skip_attrs()
            p.expect('to')
            ex['normal'] = _lab(p)
            p.expect('unwind')
            ex['unwind'] = _lab(p)
        return Instr(op, res, rty, args, ex, ln)
    if op == 'landingpad':
        return Instr('landingpad', res, p.parse_type(), [], {}, ln)
    if op == 'resume':
        return Instr('resume', None, VOID, [], {}, ln)
    if op in ('cleanuppad', 'catchpad', 'catchswitch', 'cleanupret', 'catchret'):
        return Instr(op, res, VOID, [], {}, ln)
    if op == 'freeze':
        a = p.parse_tv()
        return Instr('freeze', res, a.ty, [a], {}, ln)
    if op in ('fence',):
        return Instr('fence', None, VOID, [], {}, ln)
    if op == 'atomicrmw':
        eat_flags()
        rmw = p.next()[1]
        a = p.parse_tv()
        p.expect(',')
        b = p.parse_tv()
        return Instr('atomicrmw', res, b.ty, [a, b], {'rmw': rmw}, ln)
    if op == 'cmpxchg':
        eat_flags()
        a = p.parse_tv()
        p.expect(',')
        b = p.parse_tv()
        p.expect(',')
        c = p.parse_tv()
        return Instr('cmpxchg', res, StructTy([b.ty, I1]), [a, b, c], {}, ln)
    if op == 'va_arg':
        a = p.parse_tv()
        p.expect(',')
        t = p.parse_type()
        return Instr('va_arg', res, t, [a], {}, ln)
    raise SyntaxError('line %d: unknown instruction %r in %r' % (ln, op, line))


def _agg_elem(mod, t, ix):
    if t.kind == 'struct':
        return mod.layout.struct_def(t).fields[ix]
    if t.kind in ('array', 'vector'):
        return t.elem
    raise ValueError('agg elem of %s' % t.s())


def _gep_result_type(mod, src, args):
    t = src
    for a in args[2:]:
        if t.kind == 'struct':
            t = mod.layout.struct_def(t).fields[a.v]
        elif t.kind in ('array', 'vector'):
            t = t.elem
        else:
            raise ValueError('gep into %s' % t.s())
    return PtrTy(t)


def gep_result_type(mod, src, args):
    return _gep_result_type(mod, src, args)


def load(path):
    with open(path) as f:
        return parse_module(f.read())


if __name__ == '__main__':
    import sys
    m = load(sys.argv[1])
    nd = sum(1 for f in m.functions.values() if not f.is_decl)
    ni = sum(len(b.instrs) for f in m.functions.values() for b in f.blocks)
    print('types %d globals %d functions %d (defined %d) instrs %d' % (len(m.types), len(m.globals), len(m.functions), nd, ni))
    ops = {}
    for f in m.functions.values():
        for b in f.blocks:
            for ins in b.instrs:
                ops[ins.op] = ops.get(ins.op, 0) + 1
    print(sorted(ops.items(), key=lambda kv: -kv[1]))
