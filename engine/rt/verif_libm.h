/* libm model: uninterpreted functions under CBMC (functional consistency only, plus sign/range facts that hold for the
   correctly-rounded and for glibc results alike); the real libm natively. */
#ifndef VERIF_LIBM_H
#define VERIF_LIBM_H
#ifdef __CPROVER__
double __CPROVER_uninterpreted_exp(double);
static inline double VERIF_LIBM_exp(double x) { double r = __CPROVER_uninterpreted_exp(x); if (x == x) __CPROVER_assume(r >= 0.0); return r; }
static inline float VERIF_LIBM_expf(float x) { return (float)VERIF_LIBM_exp((double)x); }
double __CPROVER_uninterpreted_log(double);
static inline double VERIF_LIBM_log(double x) { double r = __CPROVER_uninterpreted_log(x); return r; }
static inline float VERIF_LIBM_logf(float x) { return (float)VERIF_LIBM_log((double)x); }
double __CPROVER_uninterpreted_sin(double);
static inline double VERIF_LIBM_sin(double x) { double r = __CPROVER_uninterpreted_sin(x); if (x == x) __CPROVER_assume(r >= -1.0 && r <= 1.0); return r; }
static inline float VERIF_LIBM_sinf(float x) { return (float)VERIF_LIBM_sin((double)x); }
double __CPROVER_uninterpreted_cos(double);
static inline double VERIF_LIBM_cos(double x) { double r = __CPROVER_uninterpreted_cos(x); if (x == x) __CPROVER_assume(r >= -1.0 && r <= 1.0); return r; }
static inline float VERIF_LIBM_cosf(float x) { return (float)VERIF_LIBM_cos((double)x); }
double __CPROVER_uninterpreted_tan(double);
static inline double VERIF_LIBM_tan(double x) { double r = __CPROVER_uninterpreted_tan(x); return r; }
static inline float VERIF_LIBM_tanf(float x) { return (float)VERIF_LIBM_tan((double)x); }
double __CPROVER_uninterpreted_atan(double);
static inline double VERIF_LIBM_atan(double x) { double r = __CPROVER_uninterpreted_atan(x); if (x == x) __CPROVER_assume(r >= -1.5707963267948968 && r <= 1.5707963267948968); return r; }
static inline float VERIF_LIBM_atanf(float x) { return (float)VERIF_LIBM_atan((double)x); }
double __CPROVER_uninterpreted_asin(double);
static inline double VERIF_LIBM_asin(double x) { double r = __CPROVER_uninterpreted_asin(x); return r; }
static inline float VERIF_LIBM_asinf(float x) { return (float)VERIF_LIBM_asin((double)x); }
double __CPROVER_uninterpreted_acos(double);
static inline double VERIF_LIBM_acos(double x) { double r = __CPROVER_uninterpreted_acos(x); return r; }
static inline float VERIF_LIBM_acosf(float x) { return (float)VERIF_LIBM_acos((double)x); }
double __CPROVER_uninterpreted_sinh(double);
static inline double VERIF_LIBM_sinh(double x) { double r = __CPROVER_uninterpreted_sinh(x); return r; }
static inline float VERIF_LIBM_sinhf(float x) { return (float)VERIF_LIBM_sinh((double)x); }
double __CPROVER_uninterpreted_cosh(double);
static inline double VERIF_LIBM_cosh(double x) { double r = __CPROVER_uninterpreted_cosh(x); if (x == x) __CPROVER_assume(r >= 1.0); return r; }
static inline float VERIF_LIBM_coshf(float x) { return (float)VERIF_LIBM_cosh((double)x); }
double __CPROVER_uninterpreted_tanh(double);
static inline double VERIF_LIBM_tanh(double x) { double r = __CPROVER_uninterpreted_tanh(x); if (x == x) __CPROVER_assume(r >= -1.0 && r <= 1.0); return r; }
static inline float VERIF_LIBM_tanhf(float x) { return (float)VERIF_LIBM_tanh((double)x); }
double __CPROVER_uninterpreted_cbrt(double);
static inline double VERIF_LIBM_cbrt(double x) { double r = __CPROVER_uninterpreted_cbrt(x); return r; }
static inline float VERIF_LIBM_cbrtf(float x) { return (float)VERIF_LIBM_cbrt((double)x); }
double __CPROVER_uninterpreted_exp2(double);
static inline double VERIF_LIBM_exp2(double x) { double r = __CPROVER_uninterpreted_exp2(x); if (x == x) __CPROVER_assume(r >= 0.0); return r; }
static inline float VERIF_LIBM_exp2f(float x) { return (float)VERIF_LIBM_exp2((double)x); }
double __CPROVER_uninterpreted_log2(double);
static inline double VERIF_LIBM_log2(double x) { double r = __CPROVER_uninterpreted_log2(x); return r; }
static inline float VERIF_LIBM_log2f(float x) { return (float)VERIF_LIBM_log2((double)x); }
double __CPROVER_uninterpreted_log10(double);
static inline double VERIF_LIBM_log10(double x) { double r = __CPROVER_uninterpreted_log10(x); return r; }
static inline float VERIF_LIBM_log10f(float x) { return (float)VERIF_LIBM_log10((double)x); }
double __CPROVER_uninterpreted_expm1(double);
static inline double VERIF_LIBM_expm1(double x) { double r = __CPROVER_uninterpreted_expm1(x); return r; }
static inline float VERIF_LIBM_expm1f(float x) { return (float)VERIF_LIBM_expm1((double)x); }
double __CPROVER_uninterpreted_log1p(double);
static inline double VERIF_LIBM_log1p(double x) { double r = __CPROVER_uninterpreted_log1p(x); return r; }
static inline float VERIF_LIBM_log1pf(float x) { return (float)VERIF_LIBM_log1p((double)x); }
double __CPROVER_uninterpreted_erf(double);
static inline double VERIF_LIBM_erf(double x) { double r = __CPROVER_uninterpreted_erf(x); if (x == x) __CPROVER_assume(r >= -1.0 && r <= 1.0); return r; }
static inline float VERIF_LIBM_erff(float x) { return (float)VERIF_LIBM_erf((double)x); }
double __CPROVER_uninterpreted_erfc(double);
static inline double VERIF_LIBM_erfc(double x) { double r = __CPROVER_uninterpreted_erfc(x); if (x == x) __CPROVER_assume(r >= 0.0 && r <= 2.0); return r; }
static inline float VERIF_LIBM_erfcf(float x) { return (float)VERIF_LIBM_erfc((double)x); }
double __CPROVER_uninterpreted_tgamma(double);
static inline double VERIF_LIBM_tgamma(double x) { double r = __CPROVER_uninterpreted_tgamma(x); return r; }
static inline float VERIF_LIBM_tgammaf(float x) { return (float)VERIF_LIBM_tgamma((double)x); }
double __CPROVER_uninterpreted_lgamma(double);
static inline double VERIF_LIBM_lgamma(double x) { double r = __CPROVER_uninterpreted_lgamma(x); return r; }
static inline float VERIF_LIBM_lgammaf(float x) { return (float)VERIF_LIBM_lgamma((double)x); }
double __CPROVER_uninterpreted_atanh(double);
static inline double VERIF_LIBM_atanh(double x) { double r = __CPROVER_uninterpreted_atanh(x); return r; }
static inline float VERIF_LIBM_atanhf(float x) { return (float)VERIF_LIBM_atanh((double)x); }
double __CPROVER_uninterpreted_asinh(double);
static inline double VERIF_LIBM_asinh(double x) { double r = __CPROVER_uninterpreted_asinh(x); return r; }
static inline float VERIF_LIBM_asinhf(float x) { return (float)VERIF_LIBM_asinh((double)x); }
double __CPROVER_uninterpreted_acosh(double);
static inline double VERIF_LIBM_acosh(double x) { double r = __CPROVER_uninterpreted_acosh(x); return r; }
static inline float VERIF_LIBM_acoshf(float x) { return (float)VERIF_LIBM_acosh((double)x); }
double __CPROVER_uninterpreted_pow(double, double);
static inline double VERIF_LIBM_pow(double x, double y) { return __CPROVER_uninterpreted_pow(x, y); }
static inline float VERIF_LIBM_powf(float x, float y) { return (float)VERIF_LIBM_pow((double)x, (double)y); }
double __CPROVER_uninterpreted_atan2(double, double);
static inline double VERIF_LIBM_atan2(double x, double y) { return __CPROVER_uninterpreted_atan2(x, y); }
static inline float VERIF_LIBM_atan2f(float x, float y) { return (float)VERIF_LIBM_atan2((double)x, (double)y); }
double __CPROVER_uninterpreted_hypot(double, double);
static inline double VERIF_LIBM_hypot(double x, double y) { return __CPROVER_uninterpreted_hypot(x, y); }
static inline float VERIF_LIBM_hypotf(float x, float y) { return (float)VERIF_LIBM_hypot((double)x, (double)y); }
double __CPROVER_uninterpreted_fmod(double, double);
static inline double VERIF_LIBM_fmod(double x, double y) { return __CPROVER_uninterpreted_fmod(x, y); }
static inline float VERIF_LIBM_fmodf(float x, float y) { return (float)VERIF_LIBM_fmod((double)x, (double)y); }
#else
#define VERIF_LIBM_exp(x) exp(x)
#define VERIF_LIBM_expf(x) expf(x)
#define VERIF_LIBM_log(x) log(x)
#define VERIF_LIBM_logf(x) logf(x)
#define VERIF_LIBM_sin(x) sin(x)
#define VERIF_LIBM_sinf(x) sinf(x)
#define VERIF_LIBM_cos(x) cos(x)
#define VERIF_LIBM_cosf(x) cosf(x)
#define VERIF_LIBM_tan(x) tan(x)
#define VERIF_LIBM_tanf(x) tanf(x)
#define VERIF_LIBM_atan(x) atan(x)
#define VERIF_LIBM_atanf(x) atanf(x)
#define VERIF_LIBM_asin(x) asin(x)
#define VERIF_LIBM_asinf(x) asinf(x)
#define VERIF_LIBM_acos(x) acos(x)
#define VERIF_LIBM_acosf(x) acosf(x)
#define VERIF_LIBM_sinh(x) sinh(x)
#define VERIF_LIBM_sinhf(x) sinhf(x)
#define VERIF_LIBM_cosh(x) cosh(x)
#define VERIF_LIBM_coshf(x) coshf(x)
#define VERIF_LIBM_tanh(x) tanh(x)
#define VERIF_LIBM_tanhf(x) tanhf(x)
#define VERIF_LIBM_cbrt(x) cbrt(x)
#define VERIF_LIBM_cbrtf(x) cbrtf(x)
#define VERIF_LIBM_exp2(x) exp2(x)
#define VERIF_LIBM_exp2f(x) exp2f(x)
#define VERIF_LIBM_log2(x) log2(x)
#define VERIF_LIBM_log2f(x) log2f(x)
#define VERIF_LIBM_log10(x) log10(x)
#define VERIF_LIBM_log10f(x) log10f(x)
#define VERIF_LIBM_expm1(x) expm1(x)
#define VERIF_LIBM_expm1f(x) expm1f(x)
#define VERIF_LIBM_log1p(x) log1p(x)
#define VERIF_LIBM_log1pf(x) log1pf(x)
#define VERIF_LIBM_erf(x) erf(x)
#define VERIF_LIBM_erff(x) erff(x)
#define VERIF_LIBM_erfc(x) erfc(x)
#define VERIF_LIBM_erfcf(x) erfcf(x)
#define VERIF_LIBM_tgamma(x) tgamma(x)
#define VERIF_LIBM_tgammaf(x) tgammaf(x)
#define VERIF_LIBM_lgamma(x) lgamma(x)
#define VERIF_LIBM_lgammaf(x) lgammaf(x)
#define VERIF_LIBM_atanh(x) atanh(x)
#define VERIF_LIBM_atanhf(x) atanhf(x)
#define VERIF_LIBM_asinh(x) asinh(x)
#define VERIF_LIBM_asinhf(x) asinhf(x)
#define VERIF_LIBM_acosh(x) acosh(x)
#define VERIF_LIBM_acoshf(x) acoshf(x)
#define VERIF_LIBM_pow(x, y) pow((x), (y))
#define VERIF_LIBM_powf(x, y) powf((x), (y))
#define VERIF_LIBM_atan2(x, y) atan2((x), (y))
#define VERIF_LIBM_atan2f(x, y) atan2f((x), (y))
#define VERIF_LIBM_hypot(x, y) hypot((x), (y))
#define VERIF_LIBM_hypotf(x, y) hypotf((x), (y))
#define VERIF_LIBM_fmod(x, y) fmod((x), (y))
#define VERIF_LIBM_fmodf(x, y) fmodf((x), (y))
#endif
#endif
