/* Runtime for ir2c-generated C.  Two personalities:
 *   __CPROVER__ : symbolic (CBMC).  -DVERIF_WITNESS turns verif_reach into a failing assertion.
 *   otherwise   : native (gcc) for translator validation: inputs come from a replay file,
 *                 assume/assert/observe outcomes are printed as a trace.
 */
#ifndef VERIF_RT_H
#define VERIF_RT_H
#include <stdint.h>
#include <stddef.h>
#include <string.h>
#include <math.h>

#define VERIF_MAX_IN 4096
extern uint64_t verif_in_bits[VERIF_MAX_IN];
extern uint32_t verif_in_n;

#ifdef __CPROVER__
uint64_t nondet_uint64(void);
uint32_t nondet_uint32(void);
double nondet_double(void);
float nondet_float(void);
uint8_t nondet_uint8(void);
void *malloc(size_t);
#define VERIF_HAVOC(x) do { uint8_t verif_h[sizeof(x)]; for (unsigned verif_i = 0; verif_i < sizeof(x); ++verif_i) verif_h[verif_i] = nondet_uint8(); memcpy(&(x), verif_h, sizeof(x)); } while (0)
#define VERIF_PATH_END() __CPROVER_assume(0)
#define VERIF_UNREACHABLE() do { __CPROVER_assert(0, "VERIF-UB: reached llvm unreachable"); __CPROVER_assume(0); } while (0)
#define VERIF_UNSUPPORTED(msg) do { __CPROVER_assert(0, "VERIF-UNSUPPORTED: " msg); __CPROVER_assume(0); } while (0)
#define VERIF_LLVM_ASSUME(c) __CPROVER_assert((c), "VERIF-UB: llvm.assume condition")
#define VERIF_TRAP() do { __CPROVER_assert(0, "VERIF-UB: llvm.trap"); __CPROVER_assume(0); } while (0)
#define VERIF_NSW(c) __CPROVER_assert((c), "VERIF-UB: nsw overflow")
#ifdef VERIF_FIXED_INPUTS
extern const uint64_t verif_fixed_in[];
#define nondet_uint64() (verif_fixed_in[verif_in_n])
#define nondet_uint32() ((uint32_t)verif_fixed_in[verif_in_n])
#define nondet_uint8() ((uint8_t)verif_fixed_in[verif_in_n])
static inline double verif_fixed_d(uint64_t b) { double d; memcpy(&d, &b, 8); return d; }
static inline float verif_fixed_f(uint64_t b) { uint32_t u = (uint32_t)b; float d; memcpy(&d, &u, 4); return d; }
#define nondet_double() verif_fixed_d(verif_fixed_in[verif_in_n])
#define nondet_float() verif_fixed_f(verif_fixed_in[verif_in_n])
#endif
static inline void verif_rec(uint64_t bits) { if (verif_in_n < VERIF_MAX_IN) verif_in_bits[verif_in_n] = bits; verif_in_n++; }
static inline double verif_nondet_f64(const void *n) { double v = nondet_double(); uint64_t b; memcpy(&b, &v, 8); verif_rec(b); return v; }
static inline float verif_nondet_f32(const void *n) { float v = nondet_float(); uint32_t b; memcpy(&b, &v, 4); verif_rec(b); return v; }
static inline uint32_t verif_nondet_u32(const void *n) { uint32_t v = nondet_uint32(); verif_rec(v); return v; }
static inline uint64_t verif_nondet_u64(const void *n) { uint64_t v = nondet_uint64(); verif_rec(v); return v; }
static inline uint32_t verif_nondet_bool(const void *n) { uint32_t v = nondet_uint8() & 1; verif_rec(v); return v; }
#define verif_assume(c) __CPROVER_assume((c) != 0)
#define verif_assert(c, label) __CPROVER_assert((c) != 0, "VERIF-OBLIGATION")
#define VERIF_ASSERT_L(c, text) __CPROVER_assert((c) != 0, text)
#ifdef VERIF_WITNESS
#define verif_reach(label) __CPROVER_assert(0, "VERIF-WITNESS")
#else
#define verif_reach(label) ((void)0)
#endif
#define verif_observe_u64(v) ((void)(v))
#define verif_observe_f64(v) ((void)(v))
#ifdef VERIF_EXCLUDE_KNOWN
#define verif_known_region(id, c) ((uint32_t)((c) != 0))
#else
#define verif_known_region(id, c) ((uint32_t)0)
#endif
static inline void *verif_alloc(uint64_t n) { void *p = malloc(n); __CPROVER_assume(p != 0); return p; }
/* libm: uninterpreted here (nondeterministic results constrained only by NaN-freeness for finite args) */
double verif_libm1(int fn, double x);
double verif_libm2(int fn, double x, double y);
#else
#include <stdio.h>
#include <stdlib.h>
void verif_native_init(const char *path);
uint64_t verif_native_next(void);
void verif_native_event(const char *kind, uint64_t v);
void verif_native_end(void);
#define VERIF_HAVOC(x) do { uint64_t verif_h = verif_native_next(); memset(&(x), 0, sizeof(x)); memcpy(&(x), &verif_h, sizeof(x) < 8 ? sizeof(x) : 8); } while (0)
#define VERIF_PATH_END() verif_native_end()
#define VERIF_UNREACHABLE() do { verif_native_event("UB", 1); verif_native_end(); } while (0)
#define VERIF_UNSUPPORTED(msg) do { verif_native_event("UNSUPPORTED", 1); verif_native_end(); } while (0)
#define VERIF_LLVM_ASSUME(c) do { if (!(c)) verif_native_event("UB", 2); } while (0)
#define VERIF_TRAP() do { verif_native_event("UB", 3); verif_native_end(); } while (0)
#define VERIF_NSW(c) do { if (!(c)) verif_native_event("UB", 4); } while (0)
static inline double verif_nondet_f64(const void *n) { uint64_t b = verif_native_next(); double v; memcpy(&v, &b, 8); return v; }
static inline float verif_nondet_f32(const void *n) { uint32_t b = (uint32_t)verif_native_next(); float v; memcpy(&v, &b, 4); return v; }
static inline uint32_t verif_nondet_u32(const void *n) { return (uint32_t)verif_native_next(); }
static inline uint64_t verif_nondet_u64(const void *n) { return verif_native_next(); }
static inline uint32_t verif_nondet_bool(const void *n) { return (uint32_t)(verif_native_next() & 1); }
static inline void verif_assume(uint32_t c) { if (!c) { verif_native_event("assume", 0); verif_native_end(); } }
static inline void verif_assert(uint32_t c, const void *label) { verif_native_event("assert", c != 0); }
static inline void verif_reach(const void *label) { verif_native_event("reach", 1); }
#define VERIF_ASSERT_L(c, text) verif_native_event("assert", (c) != 0)
static inline void verif_observe_u64(uint64_t v) { verif_native_event("obs", v); }
static inline void verif_observe_f64(double v) { uint64_t b; memcpy(&b, &v, 8); verif_native_event("obs", b); }
static inline uint32_t verif_known_region(const void *id, uint32_t c) { printf("known %s %x\n", (const char *)id, c != 0); return 0; }
static inline void *verif_alloc(uint64_t n) { return calloc(1, n ? n : 1); }
#endif

#define VERIF_FMULADD(a, b, c) fma((a), (b), (c))
#define VERIF_FMULADDF(a, b, c) fmaf((a), (b), (c))

static inline uint32_t verif_ctpop32(uint32_t x) { uint32_t c = 0; for (int i = 0; i < 32; ++i) c += (x >> i) & 1; return c; }
static inline uint32_t verif_ctpop64(uint64_t x) { uint32_t c = 0; for (int i = 0; i < 64; ++i) c += (x >> i) & 1; return c; }
static inline uint32_t verif_ctlz32(uint32_t x) { uint32_t c = 0; for (int i = 31; i >= 0 && !((x >> i) & 1); --i) ++c; return c; }
static inline uint32_t verif_ctlz64(uint64_t x) { uint32_t c = 0; for (int i = 63; i >= 0 && !((x >> i) & 1); --i) ++c; return c; }
static inline uint32_t verif_cttz32(uint32_t x) { uint32_t c = 0; for (int i = 0; i < 32 && !((x >> i) & 1); ++i) ++c; return c; }
static inline uint32_t verif_cttz64(uint64_t x) { uint32_t c = 0; for (int i = 0; i < 64 && !((x >> i) & 1); ++i) ++c; return c; }

static inline uint32_t verif_approx_eq(double a, double b, double scale) { double s = scale < 0 ? -scale : scale; if (!(s > 1)) s = 1; double d = a - b; if (d < 0) d = -d; return (a == b) || d <= 1e-7 * s; }
static inline uint32_t verif_close(double a, double b, double scale) { double s = scale < 0 ? -scale : scale; if (!(s > 1)) s = 1; double d = a - b; if (d < 0) d = -d; return (a == b) || d <= 1e-7 * s; }
static inline uint64_t verif_d2u(double d) { uint64_t b; memcpy(&b, &d, 8); return b; }
#ifdef VERIF_TRACE_RECORD
#define VERIF_TR(k, v) printf("TR %d %llx\n", k, (unsigned long long)(v))
#elif defined(VERIF_TRACE_CHECK)
extern const uint64_t verif_tr_expected[];
extern const uint32_t verif_tr_ids[];
extern uint32_t verif_tr_seq;
#define VERIF_TR(k, v) do { __CPROVER_assert(verif_tr_ids[verif_tr_seq] == (k), "TRACE-DIVERGE control flow"); __CPROVER_assert(verif_tr_expected[verif_tr_seq] == (v), "TRACE-DIVERGE value"); verif_tr_seq++; } while (0)
#else
#define VERIF_TR(k, v) ((void)0)
#endif

#include "verif_libm.h"
#endif
