// Native personality of the harness API: inputs from a replay file, events printed as a trace.
// usage: <binary> <obligation-function> <replay-file>
#include <cinttypes>
#include <cstdio>
#include <cstdlib>
#include <cstring>
#include <dlfcn.h>
#include <vector>

#include "verif.hh"

static std::vector<std::uint64_t> g_vals;
static std::size_t g_pos = 0;

static std::uint64_t next_val()
{
    std::uint64_t v = g_pos < g_vals.size() ? g_vals[g_pos] : 0;
    ++g_pos;
    return v;
}

static void finish()
{
    std::printf("end\n");
    std::fflush(stdout);
    std::_Exit(0);
}

extern "C" {
double verif_nondet_f64(char const*)
{
    std::uint64_t b = next_val();
    double v;
    std::memcpy(&v, &b, 8);
    return v;
}
float verif_nondet_f32(char const*)
{
    std::uint32_t b = static_cast<std::uint32_t>(next_val());
    float v;
    std::memcpy(&v, &b, 4);
    return v;
}
std::uint32_t verif_nondet_u32(char const*)
{
    return static_cast<std::uint32_t>(next_val());
}
std::uint64_t verif_nondet_u64(char const*)
{
    return next_val();
}
int verif_nondet_bool(char const*)
{
    return static_cast<int>(next_val() & 1);
}
void verif_assume(int c)
{
    if (!c)
    {
        std::printf("assume 0\n");
        finish();
    }
}
void verif_assert(int c, char const* label)
{
    std::printf("assert %x\n", c != 0);
    if (!c)
        std::fprintf(stderr, "FAILED-OBLIGATION %s\n", label);
}
void verif_reach(char const*)
{
    std::printf("reach 1\n");
}
void verif_observe_u64(std::uint64_t v)
{
    std::printf("obs %" PRIx64 "\n", v);
}
void verif_observe_f64(double v)
{
    std::uint64_t b;
    std::memcpy(&b, &v, 8);
    std::printf("obs %" PRIx64 "\n", b);
}
int verif_approx_eq(double a, double b, double scale)
{
    double s = scale < 0 ? -scale : scale;
    if (!(s > 1))
        s = 1;
    double d = a - b;
    if (d < 0)
        d = -d;
    return (a == b) || d <= 1e-7 * s;
}
int verif_close(double a, double b, double scale)
{
    double s = scale < 0 ? -scale : scale;
    if (!(s > 1))
        s = 1;
    double d = a - b;
    if (d < 0)
        d = -d;
    return (a == b) || d <= 0.9e-7 * s;
}
int verif_known_region(char const* id, int cond)
{
    std::printf("known %s %x\n", id, cond != 0);
    return 0;
}
__attribute__((weak)) void verif_throw_hook(void) {}
[[noreturn]] void verif_validate_fail(void)
{
    verif_throw_hook();
    finish();
    std::abort();
}
}

int main(int argc, char** argv)
{
    if (argc < 3)
    {
        std::fprintf(stderr, "usage: %s <obligation> <replay-file>\n", argv[0]);
        return 3;
    }
    std::FILE* f = std::fopen(argv[2], "r");
    if (!f)
    {
        std::perror(argv[2]);
        return 3;
    }
    unsigned long long v;
    while (std::fscanf(f, "%llx", &v) == 1)
        g_vals.push_back(v);
    std::fclose(f);
    using Fn = void (*)();
    Fn fn = reinterpret_cast<Fn>(dlsym(RTLD_DEFAULT, argv[1]));
    if (!fn)
    {
        std::fprintf(stderr, "no such obligation: %s\n", argv[1]);
        return 3;
    }
    try
    {
        fn();
    }
    catch (...)
    {
        verif_throw_hook();
        finish();
    }
    finish();
}
