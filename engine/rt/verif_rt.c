/* storage shared by both personalities + the native replay reader */
#include "verif_rt.h"
uint64_t verif_in_bits[VERIF_MAX_IN];
uint32_t verif_in_n;
#ifndef __CPROVER__
#include <stdio.h>
#include <stdlib.h>
static uint64_t *vals; static size_t nvals, pos;
void verif_native_init(const char *path) {
  FILE *f = fopen(path, "r"); if (!f) { perror(path); exit(3); }
  size_t cap = 64; vals = malloc(cap * 8); nvals = 0; pos = 0;
  unsigned long long v;
  while (fscanf(f, "%llx", &v) == 1) { if (nvals == cap) { cap *= 2; vals = realloc(vals, cap * 8); } vals[nvals++] = v; }
  fclose(f);
}
uint64_t verif_native_next(void) { uint64_t v = pos < nvals ? vals[pos] : 0; pos++; return v; }
void verif_native_event(const char *kind, uint64_t v) { printf("%s %llx\n", kind, (unsigned long long)v); }
void verif_native_end(void) { printf("end\n"); fflush(stdout); exit(0); }
#endif
