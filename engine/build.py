"""Build steps shared by all checks: Config.hh generation, clang -> IR, native g++ build."""
import os
import re
import subprocess
import time

VERIF = os.path.dirname(os.path.dirname(os.path.abspath(__file__)))
REPO = os.environ.get('VERIF_REPO', '/repo')
BUILD = os.path.join(VERIF, 'build')

CONFIG = {
    'CELERITAS_USE_CUDA': 0, 'CELERITAS_USE_GEANT4': 0, 'CELERITAS_USE_HEPMC3': 0, 'CELERITAS_USE_HIP': 0,
    'CELERITAS_USE_MPI': 0, 'CELERITAS_USE_OPENMP': 0, 'CELERITAS_USE_PERFETTO': 0, 'CELERITAS_USE_PNG': 0,
    'CELERITAS_USE_ROOT': 0, 'CELERITAS_USE_VECGEOM': 0, 'CELERITAS_DEBUG': 0, 'CELERITAS_DEVICE_DEBUG': 0,
    'CELERITAS_HAVE_ROCTX': 0,
}


def _enum_block(name, options, chosen):
    lines = []
    for i, o in enumerate(options):
        lines.append('#define %s_%s %d' % (name, o, i + 1))
    lines.append('#define %s %s_%s' % (name, name, chosen))
    return '\n'.join(lines)


def gen_config(incdir):
    """corecel/Config.hh and Version.hh from the .in templates of the working tree, with the option values of the
    baseline build (double, CGS, ORANGE, xorwow, no debug, host only; MPI/OpenMP/PNG off: no kernel depends on them)."""
    d = os.path.join(incdir, 'corecel')
    os.makedirs(d, exist_ok=True)
    src = open(os.path.join(REPO, 'src/corecel/Config.hh.in')).read()

    def c01(m):
        return '#define %s %d' % (m.group(1), CONFIG.get(m.group(1), 0))
    src = re.sub(r'#cmakedefine01 (\w+)', c01, src)
    subst = {
        'CELERITAS_REAL_TYPE_CONFIG': _enum_block('CELERITAS_REAL_TYPE', ['DOUBLE', 'FLOAT'], 'DOUBLE'),
        'CELERITAS_UNITS_CONFIG': _enum_block('CELERITAS_UNITS', ['CGS', 'SI', 'CLHEP'], 'CGS'),
        'CELERITAS_OPENMP_CONFIG': '#define CELERITAS_OPENMP_DISABLED 1\n#define CELERITAS_OPENMP_EVENT 2\n#define CELERITAS_OPENMP_TRACK 3\n#define CELERITAS_OPENMP CELERITAS_OPENMP_DISABLED',
        'CELERITAS_CORE_GEO_CONFIG': '#define CELERITAS_CORE_GEO_VECGEOM 0\n#define CELERITAS_CORE_GEO_GEANT4 0\n#define CELERITAS_CORE_GEO_ORANGE 1\n#define CELERITAS_CORE_GEO CELERITAS_CORE_GEO_ORANGE',
        'CELERITAS_CORE_RNG_CONFIG': '#define CELERITAS_CORE_RNG_CURAND 0\n#define CELERITAS_CORE_RNG_HIPRAND 0\n#define CELERITAS_CORE_RNG_XORWOW 1\n#define CELERITAS_CORE_RNG CELERITAS_CORE_RNG_XORWOW',
        'CELERITAS_MAX_BLOCK_SIZE': '0',
        'CELERITAS_CMAKE_STRINGS': '\n'.join('inline constexpr char %s[] = "%s";' % kv for kv in [
            ('celeritas_build_type', 'verif'), ('celeritas_hostname', 'verif'), ('celeritas_real_type', 'double'),
            ('celeritas_units', 'CGS'), ('celeritas_openmp', 'disabled'), ('celeritas_core_geo', 'ORANGE'),
            ('celeritas_core_rng', 'xorwow'), ('celeritas_clhep_version', ''), ('celeritas_geant4_version', ''),
            ('celeritas_vecgeom_version', '')]),
        'CELERITAS_SINCOSPI_PREFIX_DEF': '#define CELERITAS_SINCOSPI_PREFIX __',
        'CELERITAS_DEPENDENCY_VERSIONS': '',
    }
    # the real build defines the sincospi prefix only when the libc has it; check the baseline header if present
    base = os.path.join(REPO, '_build/include/corecel/Config.hh')
    if os.path.exists(base):
        m = re.search(r'^(#define CELERITAS_SINCOSPI_PREFIX.*)$', open(base).read(), re.M)
        subst['CELERITAS_SINCOSPI_PREFIX_DEF'] = m.group(1) if m else ''
    else:
        subst['CELERITAS_SINCOSPI_PREFIX_DEF'] = ''
    src = re.sub(r'@(\w+)@', lambda m: subst.get(m.group(1), ''), src)
    _write_if_changed(os.path.join(d, 'Config.hh'), src)
    ver = open(os.path.join(REPO, 'src/corecel/Version.hh.in')).read()
    vs = {'CELERITAS_VERSION': '0x000000', 'Celeritas_VERSION_STRING': '0.0.0+verif', 'PROJECT_VERSION_MAJOR': '0',
          'PROJECT_VERSION_MINOR': '0', 'PROJECT_VERSION_PATCH': '0'}
    ver = re.sub(r'@(\w+)@', lambda m: vs.get(m.group(1), ''), ver)
    _write_if_changed(os.path.join(d, 'Version.hh'), ver)
    return incdir


def _write_if_changed(path, text):
    if os.path.exists(path) and open(path).read() == text:
        return
    with open(path, 'w') as f:
        f.write(text)


def includes(incdir):
    return ['-I' + os.path.join(VERIF, 'harness/include'), '-I' + os.path.join(REPO, 'src'), '-I' + incdir]


CLANG_FLAGS = ['-std=c++17', '-O1', '-fno-vectorize', '-fno-slp-vectorize', '-fno-unroll-loops', '-fno-math-errno',
               '-ffp-contract=on', '-S', '-emit-llvm', '-Wno-everything']


def compile_ir(src, out_ll, incdir, defines=(), extra=()):
    cmd = ['clang++-14'] + CLANG_FLAGS + includes(incdir) + ['-D%s' % d for d in defines] + list(extra) + [src, '-o', out_ll]
    t0 = time.time()
    r = subprocess.run(cmd, capture_output=True, text=True)
    if r.returncode != 0:
        raise RuntimeError('clang failed for %s:\n%s' % (src, r.stderr[-4000:]))
    return time.time() - t0


def compile_native(src, out_bin, incdir, defines=(), extra_srcs=(), extra=()):
    """native replay binary: the SAME harness TU compiled to machine code (clang++ -O1)"""
    rt = os.path.join(VERIF, 'engine/rt/verif_native.cc')
    # clang++ (same front end as the IR): the evaluation order of nondet calls in function arguments is unspecified in C++
    # (g++ goes right-to-left, clang left-to-right) and the replay consumes inputs in call order
    cmd = ['clang++-14', '-std=c++17', '-O1', '-ffp-contract=on', '-w', '-rdynamic'] + includes(incdir) + ['-D%s' % d for d in defines] + \
        list(extra) + [src, rt] + list(extra_srcs) + ['-o', out_bin, '-ldl', '-Wl,--unresolved-symbols=ignore-all']
    r = subprocess.run(cmd, capture_output=True, text=True)
    if r.returncode != 0:
        raise RuntimeError('g++ failed for %s:\n%s' % (src, r.stderr[-4000:]))
    return out_bin


def compile_ir_cut(src, out_ll, incdir, defines=(), cuts=None, extra=()):
    """IR with the bodies of the functions matching `cuts` {regex on mangled name: harness stub name} REPLACED by a call to
    the stub.  The replacement is done on un-optimised IR (clang -O1 -disable-llvm-passes), then opt -O1 is run, so the same
    cut code is seen by both engines and by the native replay binary (built from this IR)."""
    from . import llir
    tmp = out_ll + '.pre.ll'
    cmd = ['clang++-14'] + [f for f in CLANG_FLAGS] + ['-Xclang', '-disable-llvm-passes'] + includes(incdir) + \
        ['-D%s' % d for d in defines] + list(extra) + [src, '-o', tmp]
    r = subprocess.run(cmd, capture_output=True, text=True)
    if r.returncode != 0:
        raise RuntimeError('clang failed for %s:\n%s' % (src, r.stderr[-4000:]))
    text = open(tmp).read()
    lines = text.split('\n')
    out = []
    i = 0
    done = set()
    while i < len(lines):
        ln = lines[i]
        m = re.match(r'^define [^@]*@("(?:[^"\\]|\\.)*"|[-a-zA-Z$._0-9]+)\(', ln) if ln.startswith('define ') else None
        if m:
            name = m.group(1).strip('"')
            stub = None
            for pat, st in (cuts or {}).items():
                if re.fullmatch(pat, name):
                    stub = st
            if stub is not None:
                mod = llir.Module()
                # reuse the type table of the whole module for parsing the header
                hdr_mod = _types_only(text)
                f = llir._parse_func_header(hdr_mod, ln, i + 1, decl=False)
                j = i
                while not lines[j].startswith('}'):
                    j += 1
                args = ', '.join('%s %%a%d' % (t.s(), k) for k, (t, n) in enumerate(f.params))
                fty = '%s (%s)' % (f.ret.s(), ', '.join(t.s() for t, n in f.params))
                stub_decl = _find_sig(text, stub)
                out.append('define linkonce_odr dso_local %s @"%s"(%s) {' % (f.ret.s(), name, args))
                call = 'call %s bitcast (%s* @%s to %s*)(%s)' % (f.ret.s(), stub_decl, stub, fty, args)
                if f.ret.kind == 'void':
                    out.append('  %s' % call)
                    out.append('  ret void')
                else:
                    out.append('  %%r = %s' % call)
                    out.append('  ret %s %%r' % f.ret.s())
                out.append('}')
                done.add(name)
                i = j + 1
                continue
        out.append(ln)
        i += 1
    missing = [p for p in (cuts or {}) if not any(re.fullmatch(p, n) for n in done)]
    if missing:
        raise RuntimeError('cut pass: no function matches %s in %s' % (missing, src))
    cut_ll = out_ll + '.cut.ll'
    open(cut_ll, 'w').write('\n'.join(out))
    r = subprocess.run(['opt-14', '-O1', '-S', cut_ll, '-o', out_ll], capture_output=True, text=True)
    if r.returncode != 0:
        raise RuntimeError('opt failed for %s:\n%s' % (src, r.stderr[-3000:]))
    return sorted(done)


_types_cache = {}


def _types_only(text):
    from . import llir
    key = hash(text)
    if key not in _types_cache:
        hdr = '\n'.join(l for l in text.split('\n') if l.startswith('%') and ' = type ' in l)
        _types_cache.clear()
        _types_cache[key] = llir.parse_module(hdr)
    return _types_cache[key]


def _find_sig(text, stub):
    """function type string of the stub as declared/defined in the module"""
    from . import llir
    m = re.search(r'^(?:define|declare) [^\n]*@%s\([^\n]*$' % re.escape(stub), text, re.M)
    if not m:
        raise RuntimeError('cut pass: stub %s not found in module' % stub)
    f = llir._parse_func_header(_types_only(text), m.group(0), 0, decl=not m.group(0).startswith('define'))
    return '%s (%s)' % (f.ret.s(), ', '.join(t.s() for t, n in f.params))


def compile_native_from_ir(ll, out_bin, incdir):
    rt = os.path.join(VERIF, 'engine/rt/verif_native.cc')
    cmd = ['clang++-14', '-std=c++17', '-O1', '-w', '-rdynamic'] + includes(incdir) + [ll, rt, '-o', out_bin, '-ldl', '-Wl,--unresolved-symbols=ignore-all']
    r = subprocess.run(cmd, capture_output=True, text=True)
    if r.returncode != 0:
        raise RuntimeError('clang (native from IR) failed for %s:\n%s' % (ll, r.stderr[-3000:]))
    return out_bin
