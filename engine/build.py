"""Build steps shared by all checks: Config.hh generation, clang -> IR, native g++ build."""
import os
import re
import subprocess
import time

VERIF = os.path.dirname(os.path.dirname(os.path.abspath(__file__)))
REPO = os.environ.get('VERIF_REPO', '/repo')
BUILD = os.path.join(VERIF, 'build')

CONFIG = {
    'CELERITAS_USE_CUDA': 0, 'CELERITAS_USE_GEANT4': 0, 'CELERITAS_USE_HEPMC3': 0, 'CELERITAS_USE_HIP': 0,
    'CELERITAS_USE_MPI': 0, 'CELERITAS_USE_OPENMP': 0, 'CELERITAS_USE_PERFETTO': 0, 'CELERITAS_USE_PNG': 0,
    'CELERITAS_USE_ROOT': 0, 'CELERITAS_USE_VECGEOM': 0, 'CELERITAS_DEBUG': 0, 'CELERITAS_DEVICE_DEBUG': 0,
    'CELERITAS_HAVE_ROCTX': 0,
}


def _enum_block(name, options, chosen):
    lines = []
    for i, o in enumerate(options):
        lines.append('#define %s_%s %d' % (name, o, i + 1))
    lines.append('#define %s %s_%s' % (name, name, chosen))
    return '\n'.join(lines)


def gen_config(incdir):
    """corecel/Config.hh and Version.hh from the .in templates of the working tree, with the option values of the
    baseline build (double, CGS, ORANGE, xorwow, no debug, host only; MPI/OpenMP/PNG off: no kernel depends on them)."""
    d = os.path.join(incdir, 'corecel')
    os.makedirs(d, exist_ok=True)
    src = open(os.path.join(REPO, 'src/corecel/Config.hh.in')).read()

    def c01(m):
        return '#define %s %d' % (m.group(1), CONFIG.get(m.group(1), 0))
    src = re.sub(r'#cmakedefine01 (\w+)', c01, src)
    subst = {
        'CELERITAS_REAL_TYPE_CONFIG': _enum_block('CELERITAS_REAL_TYPE', ['DOUBLE', 'FLOAT'], 'DOUBLE'),
        'CELERITAS_UNITS_CONFIG': _enum_block('CELERITAS_UNITS', ['CGS', 'SI', 'CLHEP'], 'CGS'),
        'CELERITAS_OPENMP_CONFIG': '#define CELERITAS_OPENMP_DISABLED 1\n#define CELERITAS_OPENMP_EVENT 2\n#define CELERITAS_OPENMP_TRACK 3\n#define CELERITAS_OPENMP CELERITAS_OPENMP_DISABLED',
        'CELERITAS_CORE_GEO_CONFIG': '#define CELERITAS_CORE_GEO_VECGEOM 0\n#define CELERITAS_CORE_GEO_GEANT4 0\n#define CELERITAS_CORE_GEO_ORANGE 1\n#define CELERITAS_CORE_GEO CELERITAS_CORE_GEO_ORANGE',
        'CELERITAS_CORE_RNG_CONFIG': '#define CELERITAS_CORE_RNG_CURAND 0\n#define CELERITAS_CORE_RNG_HIPRAND 0\n#define CELERITAS_CORE_RNG_XORWOW 1\n#define CELERITAS_CORE_RNG CELERITAS_CORE_RNG_XORWOW',
        'CELERITAS_MAX_BLOCK_SIZE': '0',
        'CELERITAS_CMAKE_STRINGS': '\n'.join('inline constexpr char %s[] = "%s";' % kv for kv in [
            ('celeritas_build_type', 'verif'), ('celeritas_hostname', 'verif'), ('celeritas_real_type', 'double'),
            ('celeritas_units', 'CGS'), ('celeritas_openmp', 'disabled'), ('celeritas_core_geo', 'ORANGE'),
            ('celeritas_core_rng', 'xorwow'), ('celeritas_clhep_version', ''), ('celeritas_geant4_version', ''),
            ('celeritas_vecgeom_version', '')]),
        'CELERITAS_SINCOSPI_PREFIX_DEF': '#define CELERITAS_SINCOSPI_PREFIX __',
        'CELERITAS_DEPENDENCY_VERSIONS': '',
    }
    # the real build defines the sincospi prefix only when the libc has it; check the baseline header if present
    base = os.path.join(REPO, '_build/include/corecel/Config.hh')
    if os.path.exists(base):
        m = re.search(r'^(#define CELERITAS_SINCOSPI_PREFIX.*)$', open(base).read(), re.M)
        subst['CELERITAS_SINCOSPI_PREFIX_DEF'] = m.group(1) if m else ''
    else:
        subst['CELERITAS_SINCOSPI_PREFIX_DEF'] = ''
    src = re.sub(r'@(\w+)@', lambda m: subst.get(m.group(1), ''), src)
    _write_if_changed(os.path.join(d, 'Config.hh'), src)
    ver = open(os.path.join(REPO, 'src/corecel/Version.hh.in')).read()
    vs = {'CELERITAS_VERSION': '0x000000', 'Celeritas_VERSION_STRING': '0.0.0+verif', 'PROJECT_VERSION_MAJOR': '0',
          'PROJECT_VERSION_MINOR': '0', 'PROJECT_VERSION_PATCH': '0'}
    ver = re.sub(r'@(\w+)@', lambda m: vs.get(m.group(1), ''), ver)
    _write_if_changed(os.path.join(d, 'Version.hh'), ver)
    return incdir


def _write_if_changed(path, text):
    if os.path.exists(path) and open(path).read() == text:
        return
    with open(path, 'w') as f:
        f.write(text)


def includes(incdir):
    return ['-I' + os.path.join(VERIF, 'harness/include'), '-I' + os.path.join(REPO, 'src'), '-I' + incdir]


CLANG_FLAGS = ['-std=c++17', '-O1', '-fno-vectorize', '-fno-slp-vectorize', '-fno-unroll-loops', '-fno-math-errno',
               '-ffp-contract=on', '-S', '-emit-llvm', '-Wno-everything']


def compile_ir(src, out_ll, incdir, defines=(), extra=()):
    cmd = ['clang++-14'] + CLANG_FLAGS + includes(incdir) + ['-D%s' % d for d in defines] + list(extra) + [src, '-o', out_ll]
    t0 = time.time()
    r = subprocess.run(cmd, capture_output=True, text=True)
    if r.returncode != 0:
        raise RuntimeError('clang failed for %s:\n%s' % (src, r.stderr[-4000:]))
    return time.time() - t0


def compile_native(src, out_bin, incdir, defines=(), extra_srcs=(), extra=()):
    """native replay binary: the SAME harness TU, g++ -O1 (the shipped library is -O2; the semantics are the source's)"""
    rt = os.path.join(VERIF, 'engine/rt/verif_native.cc')
    cmd = ['g++', '-std=c++17', '-O1', '-fno-fast-math', '-w', '-rdynamic'] + includes(incdir) + ['-D%s' % d for d in defines] + \
        list(extra) + [src, rt] + list(extra_srcs) + ['-o', out_bin, '-ldl', '-Wl,--unresolved-symbols=ignore-all']
    r = subprocess.run(cmd, capture_output=True, text=True)
    if r.returncode != 0:
        raise RuntimeError('g++ failed for %s:\n%s' % (src, r.stderr[-4000:]))
    return out_bin
