"""SMT-LIB emission and solver portfolio (z3 4.8.12, z3-new 5.1, cvc5 1.0) for engine B queries."""
import math
import os
import re
import signal
import struct
import subprocess
import tempfile
import time
from fractions import Fraction

import z3

SOLVERS = {
    # pp.decimal: algebraic (irrational) model values are printed as decimal approximations "1.4142...?" instead of (root-obj ...)
    'z3': ['z3', '-smt2', 'pp.decimal=true', 'pp.decimal_precision=30'],
    'z3-new': ['z3-new', '-smt2', 'pp.decimal=true', 'pp.decimal_precision=30'],
    'cvc5': ['cvc5', '--lang=smt2', '--produce-models'],
}


def lemma_instances(libm):
    """Instantiated mathematical facts about the uninterpreted libm applications occurring on the path (real mode)."""
    out = []
    by = {}
    for name, args, r in libm:
        by.setdefault(name, []).append((args, r))
    one = z3.RealVal(1)
    zero = z3.RealVal(0)
    for name, apps in by.items():
        # dedupe
        seen = {}
        for args, r in apps:
            seen[tuple(a.get_id() for a in args)] = (args, r)
        apps = list(seen.values())
        for args, r in apps:
            x = args[0]
            if name == 'exp':
                out += [r > 0, r >= one + x, z3.Implies(x < 1, r * (one - x) <= one), z3.Implies(x == 0, r == one)]
            elif name == 'log':
                out += [z3.Implies(x > 0, r <= x - one), z3.Implies(x > 0, r * x >= x - one), z3.Implies(x == 1, r == zero),
                        z3.Implies(x > 1, r > 0), z3.Implies(z3.And(x > 0, x < 1), r < 0)]
            elif name in ('sin', 'cos'):
                out += [r <= 1, r >= -1]
                # sign on [-pi, 2 pi] (rational enclosures of pi: intervals shrunk inwards, so every instance is a true fact)
                plo, phi = z3.RealVal('314159265358979/100000000000000'), z3.RealVal('31415926535898/10000000000000')
                if name == 'sin':
                    out += [z3.Implies(z3.And(x >= 0, x <= plo), r >= 0), z3.Implies(z3.And(x >= phi, x <= 2 * plo), r <= 0),
                            z3.Implies(z3.And(x >= -plo, x <= 0), r <= 0), z3.Implies(z3.And(x > 0, x < plo), r > 0),
                            z3.Implies(z3.And(x > phi, x < 2 * plo), r < 0), z3.Implies(x >= 0, r <= x), z3.Implies(x <= 0, r >= x)]
                else:
                    out += [z3.Implies(z3.And(x >= -plo / 2, x <= plo / 2), r >= 0), z3.Implies(z3.And(x >= phi / 2, x <= 3 * plo / 2), r <= 0),
                            z3.Implies(z3.And(x >= 3 * phi / 2, x <= 2 * plo), r >= 0), z3.Implies(x == 0, r == one), r >= one - x * x / 2]
            elif name == 'cosh':
                out += [r >= 1]
            elif name in ('tanh',):
                out += [r < 1, r > -1]
            elif name == 'cbrt':
                out += [r * r * r == x]
        mono_inc = name in ('exp', 'log', 'cbrt', 'sinh', 'tanh', 'atan', 'expm1', 'log1p', 'exp2', 'log2', 'log10', 'asinh')
        if mono_inc:
            for i in range(len(apps)):
                for j in range(i + 1, len(apps)):
                    (a,), ra = apps[i]
                    (b,), rb = apps[j]
                    dom = z3.And(a > 0, b > 0) if name in ('log', 'log2', 'log10') else z3.BoolVal(True)
                    out.append(z3.Implies(z3.And(dom, a < b), ra < rb))
                    out.append(z3.Implies(z3.And(dom, b < a), rb < ra))
    # sin^2+cos^2 = 1 for equal arguments
    for (a,), rs in by.get('sin', []):
        for (b,), rc in by.get('cos', []):
            if a.get_id() == b.get_id():
                out.append(rs * rs + rc * rc == one)
    # exp/log inverses where syntactically composed
    for (a,), r in by.get('exp', []):
        for (b,), rl in by.get('log', []):
            if a.get_id() == rl.get_id():
                out.append(z3.Implies(b > 0, r == b))
            if b.get_id() == r.get_id():
                out.append(rl == a)
    # order isomorphism between a logarithm and the exponentials on the path:  g < log(x) <=> exp(g) < x   (x > 0)
    for (x,), l in by.get('log', []):
        for (g,), e in by.get('exp', []):
            out.append(z3.Implies(z3.And(x > 0, g < l), e < x))
            out.append(z3.Implies(z3.And(x > 0, g > l), e > x))
            out.append(z3.Implies(z3.And(x > 0, g == l), e == x))
    # additivity of the exponential on the terms of the path: exp(a) exp(b) = exp(c) when a + b = c, and through a logarithm:
    # exp(a) exp(b) = x when a + b = log(x);  exp(a) exp(b)^2 = x when a + 2b = log(x)
    exps = list({tuple(a.get_id() for a in args): (args[0], r) for args, r in by.get('exp', [])}.values())
    if len(exps) <= 10 and os.environ.get("VERIF_EXP_ADDITIVE"):
        for i, (a, ea) in enumerate(exps):
            for j, (b, eb) in enumerate(exps):
                if j < i:
                    continue
                for (c, ec) in exps:
                    out.append(z3.Implies(a + b == c, ea * eb == ec))
                for (x,), l in by.get('log', []):
                    out.append(z3.Implies(z3.And(x > 0, a + b == l), ea * eb == x))
            for (b, eb) in exps:
                for (x,), l in by.get('log', []):
                    out.append(z3.Implies(z3.And(x > 0, a + 2 * b == l), ea * eb * eb == x))
    for args, r in by.get('pow', []):
        x, y = args
        out += [z3.Implies(x > 0, r > 0), z3.Implies(y == 0, r == one), z3.Implies(y == 1, r == x),
                z3.Implies(z3.And(x > 0, y == 2), r == x * x), z3.Implies(x == 1, r == one)]
    return out


_vars_cache = {}


def expr_vars(e):
    """ids of the uninterpreted constants occurring in e (cached per AST id)"""
    key = e.get_id()
    r = _vars_cache.get(key)
    if r is not None and r[0].eq(e):
        return r[1]
    out = set()
    seen = set()
    stack = [e]
    while stack:
        x = stack.pop()
        i = x.get_id()
        if i in seen:
            continue
        seen.add(i)
        if z3.is_app(x):
            if x.num_args() == 0:
                if x.decl().kind() == z3.Z3_OP_UNINTERPRETED:
                    out.add(x.decl().name())
            else:
                if x.decl().kind() == z3.Z3_OP_UNINTERPRETED:
                    out.add('fn:' + x.decl().name())   # uninterpreted functions couple everything that uses them
                stack.extend(x.children())
    r = frozenset(out)
    _vars_cache[key] = (e, r)      # keep the AST alive: ids are recycled after garbage collection
    return r


def slice_constraints(constraints, goal_exprs):
    """constraints sharing variables (transitively) with the goal; the rest is returned separately.
    Sound for unsat; for sat the remainder must be solved too to obtain a full model (done by the caller)."""
    need = set()
    for g in goal_exprs:
        need |= expr_vars(g)
    if not need:
        # variable-free goal (an assertion that is concretely false on this path): the question is the satisfiability of the path itself
        return list(constraints), []
    items = [(c, expr_vars(c)) for c in constraints]
    used = [False] * len(items)
    changed = True
    while changed:
        changed = False
        for i, (c, vs) in enumerate(items):
            if not used[i] and (vs & need or not vs):
                used[i] = True
                if not vs <= need:
                    need |= vs
                    changed = True
    return [c for i, (c, vs) in enumerate(items) if used[i]], [c for i, (c, vs) in enumerate(items) if not used[i]]


def build_smt2(q, extra_constraints=(), want_model=True, sliced=True, only=None):
    s = z3.Solver()
    negs = q.negs
    goal = negs[0] if len(negs) == 1 else z3.Or(*negs)
    cons = list(q.constraints) + list(extra_constraints)
    if q.libm:
        cons += lemma_instances(q.libm)
    if only is not None:
        cons = only
        goal = z3.BoolVal(True)
    elif sliced:
        cons, rest = slice_constraints(cons, [goal])
        q.sliced_rest = rest
    for c in cons:
        s.add(c)
    s.add(goal)
    body = s.to_smt2()
    body = re.sub(r'^\(set-info :status [a-z]+\)\n', '', body, flags=re.M)
    # z3 prints its internal "divisor known non-zero / hardware semantics" operators; they are the SMT-LIB ones
    body = re.sub(r'\b(bvudiv|bvurem|bvsdiv|bvsrem|bvsmod)_i\b', r'\1', body)
    has_bv = '(_ BitVec' in body or '(_ bv' in body
    has_real = ' Real' in body
    has_fp = 'FloatingPoint' in body or 'Float64' in body or 'Float32' in body or 'RoundingMode' in body
    has_int = 'to_int' in body or 'bv2int' in body or 'bv2nat' in body or 'int2bv' in body or 'to_real' in body
    has_uf = bool(re.search(r'\(declare-fun \S+ \(\s*[^()\s]', body))
    if has_fp:
        logic = 'QF_FP' if not has_bv else 'QF_BVFP'
        if has_uf:
            logic = 'QF_UFBVFP' if False else None
    elif has_real and not has_bv and not has_int:
        logic = 'QF_UFNRA' if has_uf else 'QF_NRA'
    elif has_bv and not has_real and not has_int:
        logic = 'QF_UFBV' if has_uf else 'QF_BV'
    else:
        logic = None
    head = ''
    if want_model:
        head += '(set-option :produce-models true)\n'
    if logic:
        head += '(set-logic %s)\n' % logic
    else:
        head += '(set-logic ALL)\n'
    names = []
    if want_model:
        for kind, label, v in q.inputs:
            if isinstance(v, z3.ExprRef) and re.search(r'\(declare-(fun|const) %s[ )]' % re.escape(v.sexpr()), body):
                names.append(v.sexpr())
    tail = ''
    body = body.replace('(check-sat)\n', '')
    tail += '(check-sat)\n'
    if names:
        tail += '(get-value (%s))\n' % ' '.join(names)
    return head + body + tail, logic


def _run_one(name, path, timeout):
    cmd = SOLVERS[name] + [path]
    if name.startswith('z3'):
        cmd = SOLVERS[name] + ['-T:%d' % max(1, int(timeout)), path]
    else:
        cmd = SOLVERS[name] + ['--tlimit=%d' % int(timeout * 1000), path]
    return subprocess.Popen(cmd, stdout=subprocess.PIPE, stderr=subprocess.PIPE, text=True, preexec_fn=os.setsid)


def portfolio(smt_text, solvers=('z3', 'z3-new', 'cvc5'), timeout=60, workdir=None, keep=None):
    """returns dict(status=sat|unsat|unknown, solver, time, output)"""
    fd, path = tempfile.mkstemp(suffix='.smt2', dir=workdir)
    with os.fdopen(fd, 'w') as f:
        f.write(smt_text)
    t0 = time.time()
    procs = {}
    for sname in solvers:
        text = smt_text
        procs[sname] = _run_one(sname, path, timeout)
    result = {'status': 'unknown', 'solver': None, 'time': 0.0, 'output': '', 'answers': {}}
    pending = dict(procs)
    try:
        while pending and time.time() - t0 < timeout + 5:
            for sname, p in list(pending.items()):
                if p.poll() is not None:
                    out, err = p.communicate()
                    del pending[sname]
                    first = out.strip().split('\n')[0].strip() if out.strip() else ''
                    if '(error' in out or 'error' in err.lower():
                        # an error line makes the answer inconclusive unless it only concerns get-value after unsat
                        if not (first == 'unsat' and out.count('(error') <= 1):
                            result['answers'][sname] = 'error'
                            continue
                    result['answers'][sname] = first
                    if first in ('sat', 'unsat'):
                        result.update(status=first, solver=sname, time=time.time() - t0, output=out)
                        pending_kill = list(pending.values())
                        for q in pending_kill:
                            _kill(q)
                        pending = {}
                        break
            else:
                time.sleep(0.01)
                continue
            break
    finally:
        for p in procs.values():
            if p.poll() is None:
                _kill(p)
        if not keep and os.environ.get('VERIF_KEEP_SAT') and result['status'] == 'sat':
            keep = path + '.sat_%s.smt2' % result['solver']
        if keep:
            os.replace(path, keep)
        else:
            try:
                os.unlink(path)
            except OSError:
                pass
    if result['status'] == 'unknown':
        result['time'] = time.time() - t0
    return result


def _kill(p):
    try:
        os.killpg(os.getpgid(p.pid), signal.SIGKILL)
    except Exception:
        pass
    try:
        p.communicate(timeout=2)
    except Exception:
        pass


# ---------------------------------------------------------------------------
# model parsing (get-value output)

_tok = re.compile(r'\(|\)|[^\s()]+')


def _parse_sexprs(text):
    toks = _tok.findall(text)
    pos = 0

    def rd():
        nonlocal pos
        t = toks[pos]
        pos += 1
        if t == '(':
            lst = []
            while toks[pos] != ')':
                lst.append(rd())
            pos += 1
            return lst
        return t
    out = []
    while pos < len(toks):
        out.append(rd())
    return out


def _num(e):
    """rational value of a get-value real term"""
    if isinstance(e, str):
        if re.fullmatch(r'-?[0-9]+(\.[0-9]+)?\??', e):
            return Fraction(e.rstrip('?'))
        raise ValueError(e)
    if e[0] == '-' and len(e) == 2:
        return -_num(e[1])
    if e[0] == '-' and len(e) == 3:
        return _num(e[1]) - _num(e[2])
    if e[0] == '+':
        return sum(_num(x) for x in e[1:])
    if e[0] == '*':
        r = Fraction(1)
        for x in e[1:]:
            r *= _num(x)
        return r
    if e[0] == '/':
        return _num(e[1]) / _num(e[2])
    if e[0] == 'to_real':
        return _num(e[1])
    if e[0] == 'root-obj':
        raise ValueError('algebraic number')
    raise ValueError(str(e))


def _fpbits(e, bits):
    eb, sb = (11, 53) if bits == 64 else (8, 24)
    if isinstance(e, list) and e[0] == 'fp':
        def b(x):
            if x.startswith('#b'):
                return x[2:]
            if x.startswith('#x'):
                return bin(int(x[2:], 16))[2:].zfill(4 * (len(x) - 2))
            raise ValueError(x)
        s = b(e[1]) + b(e[2]) + b(e[3])
        return int(s, 2)
    if isinstance(e, list) and e[0] == '_':
        kind = e[1]
        if kind == '+zero':
            return 0
        if kind == '-zero':
            return 1 << (bits - 1)
        if kind == '+oo':
            return ((1 << eb) - 1) << (sb - 1)
        if kind == '-oo':
            return (1 << (bits - 1)) | (((1 << eb) - 1) << (sb - 1))
        if kind == 'NaN':
            return (((1 << eb) - 1) << (sb - 1)) | (1 << (sb - 2))
    raise ValueError(str(e))


def parse_model(output, inputs):
    """replay bit patterns (one 64-bit word per input) from the get-value answer; None if unparsable"""
    idx = output.find('(', output.find('sat'))
    if idx < 0:
        return None if any(isinstance(v, z3.ExprRef) for _, _, v in inputs) else [_bits_of_concrete(k, v) for k, _, v in inputs]
    try:
        sx = _parse_sexprs(output[idx:])
    except Exception:
        return None
    pairs = {}
    if sx:
        for pr in sx[0]:
            if isinstance(pr, list) and len(pr) == 2:
                key = pr[0] if isinstance(pr[0], str) else None
                if key:
                    pairs[key.strip('|')] = pr[1]
    vals = []
    approx = False
    for kind, label, v in inputs:
        if not isinstance(v, z3.ExprRef):
            vals.append(_bits_of_concrete(kind, v))
            continue
        e = pairs.get(v.sexpr().strip('|'))
        if e is None:
            vals.append(0)
            continue
        try:
            if kind in ('u32', 'u64'):
                if isinstance(e, str) and e.startswith('#x'):
                    vals.append(int(e[2:], 16))
                elif isinstance(e, str) and e.startswith('#b'):
                    vals.append(int(e[2:], 2))
                elif isinstance(e, list) and e[0] == '_' and e[1].startswith('bv'):
                    vals.append(int(e[1][2:]))
                else:
                    return None
            elif kind == 'bool':
                vals.append(1 if e == 'true' else 0)
            elif kind in ('f64', 'f32'):
                if z3.is_real(v):
                    fr = _num(e)
                    d = float(fr)
                    if kind == 'f64':
                        vals.append(struct.unpack('<Q', struct.pack('<d', d))[0])
                    else:
                        vals.append(struct.unpack('<I', struct.pack('<f', d))[0])
                else:
                    vals.append(_fpbits(e, 64 if kind == 'f64' else 32))
        except (ValueError, OverflowError, ZeroDivisionError):
            return None
    return vals


def _bits_of_concrete(kind, v):
    if kind in ('u32', 'u64', 'bool'):
        return int(v)
    if kind == 'f64':
        return struct.unpack('<Q', struct.pack('<d', float(v)))[0]
    if kind == 'f32':
        return struct.unpack('<I', struct.pack('<f', float(v)))[0]
    return 0


def solve_inproc(q, timeout_ms):
    """decide a query with the z3 python API (z3 5.1) on the cone-of-influence slice; None if undecided.
    On sat the model is completed on the independent remainder so that the replay follows the same path."""
    t0 = time.time()
    negs = q.negs
    goal = negs[0] if len(negs) == 1 else z3.Or(*negs)
    cons = list(q.constraints)
    if q.libm:
        cons += lemma_instances(q.libm)
    rel, rest = slice_constraints(cons, [goal])
    try:
        s = z3.Solver()
        s.set('timeout', timeout_ms)
        for c in rel:
            s.add(c)
        s.add(goal)
        r = s.check()
        if r == z3.unsat:
            return {'status': 'unsat', 'solver': 'z3-5.1-inproc', 'time': time.time() - t0, 'answers': {}, 'output': ''}
        if r != z3.sat:
            return None
        m = s.model()
        m2 = None
        if rest:
            s2 = z3.Solver()
            s2.set('timeout', timeout_ms)
            for c in rest:
                s2.add(c)
            r2 = s2.check()
            if r2 == z3.unsat:
                return {'status': 'unsat', 'solver': 'z3-5.1-inproc', 'time': time.time() - t0, 'answers': {}, 'output': ''}
            if r2 != z3.sat:
                return None
            m2 = s2.model()
        rest_vars = set()
        for c in rest:
            rest_vars |= expr_vars(c)
        vals = []
        for kind, label, v in q.inputs:
            if not isinstance(v, z3.ExprRef):
                vals.append(_bits_of_concrete(kind, v))
                continue
            mm = m2 if (m2 is not None and v.decl().name() in rest_vars) else m
            ev = mm.eval(v, model_completion=True)
            vals.append(_model_bits(kind, v, ev))
        if any(x is None for x in vals):
            return None
        return {'status': 'sat', 'solver': 'z3-5.1-inproc', 'time': time.time() - t0, 'answers': {}, 'output': '', 'vals': vals}
    except z3.Z3Exception:
        return None


def _model_bits(kind, v, ev):
    try:
        if kind in ('u32', 'u64'):
            return ev.as_long()
        if kind == 'bool':
            return 1 if z3.is_true(ev) else 0
        if z3.is_real(v):
            if z3.is_rational_value(ev):
                d = float(Fraction(ev.numerator_as_long(), ev.denominator_as_long()))
            elif z3.is_algebraic_value(ev):
                a = ev.approx(20)
                d = float(Fraction(a.numerator_as_long(), a.denominator_as_long()))
            else:
                return None
            return struct.unpack('<Q', struct.pack('<d', d))[0] if kind == 'f64' else struct.unpack('<I', struct.pack('<f', d))[0]
        # floating point
        bv_ = z3.simplify(z3.fpToIEEEBV(ev))
        if z3.is_bv_value(bv_):
            return bv_.as_long()
        if z3.is_fp_value(ev) or True:
            s_ = z3.Solver()
            x = z3.BitVec('bits!m', 64 if kind == 'f64' else 32)
            s_.add(z3.fpToIEEEBV(ev) == x)
            if s_.check() == z3.sat:
                return s_.model()[x].as_long()
        return None
    except Exception:
        return None


# ---------------------------------------------------------------------------
# counterexample refinement for uninterpreted libm (real mode)
_PYLIBM = {'sin': math.sin, 'cos': math.cos, 'tan': math.tan, 'exp': math.exp, 'log': math.log, 'atan': math.atan, 'asin': math.asin, 'acos': math.acos,
           'sinh': math.sinh, 'cosh': math.cosh, 'tanh': math.tanh, 'expm1': math.expm1, 'log1p': math.log1p, 'cbrt': lambda x: math.copysign(abs(x) ** (1.0 / 3), x),
           'log2': math.log2, 'log10': math.log10, 'exp2': lambda x: 2.0 ** x, 'asinh': math.asinh, 'pow': math.pow, 'atan2': math.atan2, 'hypot': math.hypot}


def _ev_float(m, e):
    v = m.eval(e, model_completion=True)
    if z3.is_rational_value(v):
        return float(Fraction(v.numerator_as_long(), v.denominator_as_long()))
    if z3.is_algebraic_value(v):
        return float(Fraction(v.approx(25).numerator_as_long(), v.approx(25).denominator_as_long()))
    raise ValueError('not a number')


def refine_libm(q, replay, timeout_ms=20000, rounds=3):
    """The libm functions are uninterpreted in real mode, so a model may use function values no real libm returns and then does not replay.
    Refinement: take the model's ARGUMENT of every libm application, evaluate the true function there (python math = the C libm), pin
    argument and result to those (true) points and solve again; the pinned facts are valid facts about the real functions, so a model of
    the refined query is a genuine candidate.  `replay(vals) -> bool` runs the native binary.  Returns input values that replay, or None."""
    negs = q.negs
    goal = negs[0] if len(negs) == 1 else z3.Or(*negs)
    cons = list(q.constraints) + lemma_instances(q.libm)
    pins = []
    for it in range(rounds + 1):
        s = z3.Solver()
        s.set('timeout', timeout_ms)
        for c in cons:
            s.add(c)
        s.add(goal)
        for c in pins:
            s.add(c)
        try:
            rr = s.check()
            if os.environ.get('VERIF_REFINE_DEBUG'):
                import sys
                sys.stderr.write('[refine] round %d pins=%d -> %s\n' % (it, len(pins), rr))
            if rr != z3.sat:
                return None
            m = s.model()
            vals = []
            for kind, label, v in q.inputs:
                if not isinstance(v, z3.ExprRef):
                    vals.append(_bits_of_concrete(kind, v))
                else:
                    vals.append(_model_bits(kind, v, m.eval(v, model_completion=True)))
            if any(x is None for x in vals):
                return None
            if replay(vals):
                return vals
            if it == rounds:
                return None
            pins = []
            seen = set()
            for name, args, r in q.libm:
                f = _PYLIBM.get(name)
                if f is None:
                    return None
                key = (name,) + tuple(a.get_id() for a in args)
                if key in seen:
                    continue
                seen.add(key)
                av = [_ev_float(m, a) for a in args]
                try:
                    rv = f(*av)
                except (ValueError, OverflowError):
                    return None
                if rv != rv or rv in (float('inf'), float('-inf')):
                    return None
                if os.environ.get('VERIF_REFINE_DEBUG'):
                    import sys
                    sys.stderr.write('[refine]   %s(%s) = %r (model had %r)\n' % (name, av, rv, _ev_float(m, r)))
                for a, x in zip(args, av):
                    fx = Fraction(x)
                    pins.append(a == z3.RealVal(str(fx.numerator) + '/' + str(fx.denominator)))
                fr = Fraction(rv)
                pins.append(r == z3.RealVal(str(fr.numerator) + '/' + str(fr.denominator)))
        except (z3.Z3Exception, ValueError, OverflowError):
            return None
    return None
