#!/usr/bin/env python3-vt
"""compare a SYMBOLIC cbmc json trace (uninstrumented C) with the gcc execution (instrumented C) on the trace's inputs.
usage: diverge_sym.py <harness,DEFS> <entry> <cbmc-json-trace> <property substring>"""
import json, os, re, subprocess, sys
sys.path.insert(0, os.path.dirname(os.path.dirname(os.path.abspath(__file__))))
from engine import runner, cbmc
from engine.runner import Obl
h = sys.argv[1].split(',')
entry, jpath, sub = sys.argv[2], sys.argv[3], sys.argv[4]
o = Obl('dbg', h[0], entry, 'A', 'dbg', defines=tuple(h[1:]), opts={'trace': True})
runner.prepare([o.hkey], need_native=False)
cpath, info = runner.c_for(o)
src = open(cpath).read().split('\n')
# symbolic run on the instrumented file (VERIF_TR is a no-op without -DVERIF_TRACE_*): same line numbers
sub_ = sub
cmd = ['cbmc', cpath, os.path.join(runner.VERIF, 'engine/rt/verif_rt.c'), '-I', os.path.join(runner.VERIF, 'engine/rt'), '--function', entry, '--unwind', sys.argv[5] if len(sys.argv) > 5 else '8'] + cbmc.BASE_FLAGS + ['--trace', '--json-ui']
pr_ = subprocess.run(cmd, capture_output=True, text=True, timeout=3600)
data = json.loads(pr_.stdout)
trace = None
for item in data:
    for pr in item.get('result', []) if isinstance(item, dict) else []:
        if pr['status'] == 'FAILURE' and sub in pr['description']:
            trace = pr['trace']
if trace is None:
    print('no failing property matching', sub)
    sys.exit(0)
line_k = {}
for i, ln in enumerate(src):
    m = re.search(r'VERIF_TR\((\d+), .*?\(?(v\w+)\)+; /\*', ln)
    if m:
        line_k[(i, m.group(2))] = int(m.group(1))   # i = 0-based index of TR line = 1-based line of the assignment
ins = cbmc.trace_inputs(trace)
open('/tmp/ds_in.txt', 'w').write(' '.join('%x' % v for v in ins))
rt = os.path.join(runner.VERIF, 'engine/rt')
subprocess.check_call(['gcc', '-std=gnu11', '-O0', '-w', '-DVERIF_TRACE_RECORD', '-I', rt, cpath, rt + '/verif_rt.c', '-o', '/tmp/ds_bin', '-lm'])
out = subprocess.run(['/tmp/ds_bin', entry, '/tmp/ds_in.txt'], capture_output=True, text=True).stdout
gseq = [(int(l.split()[1]), int(l.split()[2], 16)) for l in out.split('\n') if l.startswith('TR ')]
sseq = []
for st in trace:
    if st.get('stepType') != 'assignment':
        continue
    loc = st.get('sourceLocation') or {}
    if not loc.get('file', '').endswith(os.path.basename(cpath)):
        continue
    key = (int(loc.get('line', 0)), st.get('lhs', ''))
    if key in line_k:
        b = st.get('value', {}).get('binary')
        if b is not None:
            sseq.append((line_k[key], int(b, 2), key[0]))
print('gcc entries', len(gseq), 'symbolic entries', len(sseq), 'inputs', len(ins))
n = 0
for i in range(min(len(gseq), len(sseq))):
    if gseq[i][0] != sseq[i][0]:
        print('control-flow divergence at #%d: gcc TR %d vs symbolic TR %d (C line %d)' % (i, gseq[i][0], sseq[i][0], sseq[i][2]))
        ln = sseq[i][2]
        print('\n'.join(x[:230] for x in src[max(0, ln - 8):ln + 1]))
        break
    if gseq[i][1] != sseq[i][1] and {gseq[i][1], sseq[i][1]} != {0, 0x8000000000000000}:
        print('VALUE divergence at #%d TR %d: gcc %x symbolic %x (C line %d)' % (i, gseq[i][0], gseq[i][1], sseq[i][1], sseq[i][2]))
        ln = sseq[i][2]
        print('\n'.join(x[:230] for x in src[max(0, ln - 8):ln + 1]))
        for j in range(i, min(i + 8, len(gseq), len(sseq))):
            print('   #%d TR %d gcc %x sym %x line %d' % (j, gseq[j][0], gseq[j][1], sseq[j][1], sseq[j][2]))
        n += 1
        if n >= 1:
            break
else:
    print('no divergence in the common prefix')
