#!/usr/bin/env python3
"""Regenerates /verif/MANIFEST.json from the table below (single source of truth for what is claimed)."""
import json
import os

V = os.path.dirname(os.path.dirname(os.path.abspath(__file__)))

TECH_A = 'bounded symbolic model checking of the real code: clang-14 LLVM IR -> own IR->C translator -> CBMC 6.11 (SAT, bit-precise), unwinding assertions on'
TECH_B = 'symbolic execution of the real code\'s LLVM IR (own executor) -> SMT-LIB2 -> z3 4.8.12 / z3 5.1 / cvc5 portfolio; counterexamples replayed on a native build'

CLAIMS = {
    'C13': dict(
        text='For all 2^160 generator states the solver shows: jump[0] acts as one step, each of the 31+31 table squarings jump[i+1]=jump[i]^4 '
             'holds, jump_subsequence[0] = jump[31]^32 (2^67 steps); one draw = next + Weyl add; canonical double in [0,1). Bounded only by '
             'the fixed 160-iteration Horner loop (fully unrolled by execution). Any flipped table bit yields a concrete 160-bit state, replayed natively.',
        note='Assumes the xorshift period (Marsaglia 2003) and the inductive composition jump[i]=T^(4^i); clang -O1 lowering; own IR translators '
             '(validated differentially on every run); z3/cvc5/CBMC.',
        technique=TECH_B + '; ' + TECH_A + ' for the loop-free kernels', design='3 (C13)'),
}

CLAIMS['C18'] = dict(
    text='For every array of length <= 4 (quick) / 5 (thorough) with arbitrary contents CBMC shows celeritas::sort (heapsort, both comparators used in the '
         'code base), partition, lower/upper_bound, lower_bound_linear, find_sorted, min_element, all_of/any_of/all_adjacent equal their reference '
         'specification; integer helpers over full-width ints; HyperslabIndexer bijectivity; UniformGrid::find / NonuniformGrid::find / LinearInterpolator '
         'on bit-precise IEEE doubles incl. values adjacent to grid ends. Found and fixed defect F1 (UniformGrid::find returning size-1).',
    note='Lengths beyond the bound, comparators not listed and TwodGrid calculators are outside the claim; 12-bit operands for the multiplication oracle of '
         'ceil_div; clang -O1 lowering; own translators (validated each run).',
    technique=TECH_A + '; ' + TECH_B + ' (IEEE floating-point and bit-vector modes) for scalar kernels', design='3 (C18)')
CLAIMS['C10'] = dict(
    text='Runtime encodings only: for every well-formed postfix logic program up to length 7 (quick) / 9 (thorough) over 4 faces and every sense '
         'assignment, the real LogicEvaluator/LogicStack agree with a reference stack machine; LogicStack laws from an arbitrary stack of depth <= 30.',
    note='CSG tree rewriting (CsgTree::simplify, DeMorgan, PostfixLogicBuilder, InternalSurfaceFlagger) is host code over std::variant/unordered_map and '
         'is not yet covered: only the evaluation half of the property is decided.',
    technique=TECH_A, design='3 (C10)')

CLAIMS['C02'] = dict(
    text='Inductive one-step obligations over the real LocateAliveExecutor, remove_if_alive, exclusive_scan_counts, ProcessSecondariesExecutor and '
         'InitTracksExecutor from an ARBITRARY symbolic state (N=2 quick / 3 thorough slots, 2 secondaries per slot, K=2N initializers, 2 events): '
         'vacancies/counts are exact; every valid secondary becomes exactly one in-place track or one initializer at its scan position with '
         'consecutive event-unique ids and the right parent; one init thread fills exactly one vacant slot; nothing else is written.',
    note='Composition over slots/steps (disjoint scan ranges => no slot holds two tracks) is argued, not solver-checked; TrackOrder::none only; geometry '
         'point location cut to a contract stub; host glue (step_impl) sequencing mirrored by hand; termination of the event loop is outside.',
    technique=TECH_B + ' (bit-vector + IEEE mode, path-wise with cone-of-influence slicing)', design='3 (C02)')

CLAIMS['C17'] = dict(
    text='For one slot of an arbitrary symbolic core state CBMC shows, over all 2^12 selections, detector maps and filters: StepGatherExecutor<pre/post> '
         'writes exactly the selected fields with the values of the track views, clears/filters as documented and touches nothing else; SimpleCaloExecutor '
         'adds exactly the delivered deposit to the step\'s detector; action/step diagnostics increment exactly one counter.',
    note='Callback fan-out over std::vector<SPStepInterface> (virtual calls), DetectorSteps::copy_steps and the run-time action order are outside the claim.',
    technique=TECH_A, design='3 (C17)')
CLAIMS['C05'] = dict(
    text='One-step relations from an arbitrary symbolic slot state, IEEE bit-precise: step limits only ever lower the step; time never decreases; the step '
         'counter increases by exactly one; kinetic energy never increases through energy loss and the stopped-particle transitions are exactly '
         'killed+range or discrete; tracking cut kills. Every kernel writes only its own slot (frame condition).',
    note='Propagation/MSC/pre-step/boundary kernels and the geometric half (volume contains position) are not covered yet; eloss handler is a contract stub.',
    technique=TECH_B + ' (IEEE floating-point mode)', design='3 (C05)')
CLAIMS['C01'] = dict(
    text='Per-kernel energy balance, bit-precise: ElossApplier moves exactly the same amount from kinetic energy to deposition; InteractionApplier adds the '
         'interaction deposit plus E (+2mc^2 per positron) of exactly the secondaries the production cut kills; TrackingCut deposits E (+2mc^2).',
    note='Event-level balance is the (stated) sum over kernels/steps/tracks with C02; interactors (C04) and the real loss calculators (C14) are separate obligations.',
    technique=TECH_B + ' (IEEE floating-point mode)', design='3 (C01)')
CLAIMS['C16'] = dict(
    text='StackAllocator one-step obligation from an arbitrary valid state (success iff the request fits, block disjoint from earlier elements, failure leaves '
         'size/storage untouched, clear resets) and InteractionApplier on a failed interaction (nothing of the physics state changes, step limited to 0 with '
         'the failure action).',
    note='Initializer-capacity overflow path (CELER_VALIDATE in ExtendFromSecondaries/Primaries host glue) and CoreState::reset are not yet covered; '
         'allocation counts <= 2^16; single-threaded model of atomic_add.',
    technique=TECH_A + '; ' + TECH_B, design='3 (C16)')

CLAIMS['C12'] = dict(
    text='Exact real arithmetic over ALL surface parameters, positions and directions: QuadraticSolver contract (roots positive, on the quadratic, ascending, '
         'complete for |a|>=min_a); for every quadric type the coefficients handed to the solver satisfy f(pos+t dir)=a t^2+2(b/2)t+c for a free t and the '
         'answer is passed through; planes directly; calc_sense = sign f; calc_normal = unit gradient; SurfaceTranslator (every overload), '
         'SurfaceTransformer(GeneralQuadric and the CylAligned / ConeAligned / SimpleQuadric promotions) preserve the point set; transform_down(transform_up(x)) = x. Found and fixed defect F2 (SimpleQuadric translation).',
    note='Real-mode abstraction: algebraic correctness only (no rounding/cancellation/NaN); Involute, SurfaceSimplifier, the Plane / Sphere transformer overloads (thorough tier only), '
         'SignedPermutation and the |a|<min_a regime are outside; QuadraticSolver entry points are cut to recorders for the coefficient identities.',
    technique=TECH_B + ' (real-arithmetic mode, QF_NRA, z3 nlsat)', design='3 (C12)')
CLAIMS['C11'] = dict(
    text='CalcSafetyDistance in exact real arithmetic: for PlaneAligned and CylCentered (quick; Plane/Sphere/SphereCentered in the thorough tier) the safety is '
         '>= 0 and no surface point along any ray is nearer; surface types without simple safety return exactly 0.',
    note='Per-surface functor only: the min over faces/levels in the trackers and the MSC consumers are not covered; sphere/plane queries may stay undecided '
         'within the time budget (reported as not discharged).',
    technique=TECH_B + ' (real-arithmetic mode)', design='3 (C11)')

CLAIMS['C14'] = dict(
    text='Exact-arithmetic obligations over fully symbolic small tables (K=3 quick / 4 thorough knots, any prime index): XsCalculator is non-negative, reproduces '
         'the table at its knots, stays between neighbouring knot values of the interpolated quantity and extrapolates as documented; RangeCalculator is positive, '
         'monotone, bracketed and reproduces knots; InverseRange(Range(E)) = E. exp/log enter as uninterpreted strictly monotone inverse pair (lemma schemas).',
    note='Algebraic (real-mode) claim; IEEE accuracy outside (bit-precise grid index: C18.7, defect F1 fixed there). Mean energy loss, MSC path conversion, '
         'EnergyLoss/GenericCalculator not yet covered.',
    technique=TECH_B + ' (real-arithmetic mode with instantiated exp/log lemma schemas)', design='3 (C14)')
CLAIMS['C15'] = dict(
    text='Support, index validity and draw count for every value of the underlying uniforms (stub engine returning any canonical value): uniform, Bernoulli, '
         'selector, exponential, reciprocal, inverse-square, radial, isotropic, uniform-box. UniformRealDistribution also bit-precise: open known finding F3 '
         '(returns b when the draw is within 2^-53 of 1).',
    note='The statistical half (empirical distribution vs density) is not a solver question and is outside; normal/gamma/Poisson/TsaiUrban/fluctuation samplers '
         'and rejection loops not covered; u=0 corner of log excluded.',
    technique=TECH_B + ' (real-arithmetic mode; IEEE mode for UniformRealDistribution)', design='3 (C15)')

CLAIMS['C06'] = dict(
    text='State-initialisation half of the property as non-interference obligations: the RNG state after operator=(Initializer)/reseed_rng is a function of '
         '(seed, event, slot, slot count) only (two arbitrary previous states give the same result; stream id ignored); InitTracksExecutor overwrites or resets '
         'every per-slot field of the slot it initialises (previous contents symbolic).',
    note='Re-indexing policies (std::sort/partition over track_slots), action timing / status checker options, CoreState::reset and the frame conditions of '
         'unharnessed physics kernels are outside: bit-identical histories are supported only as far as these obligations go.',
    technique=TECH_B, design='3 (C06)')
CLAIMS['C08'] = dict(
    text='The real FieldPropagator loop executed against contract stubs for driver and geometry in exact arithmetic: geometry used per its contract, 0 < distance '
         '<= step, looping only with the substep budget spent, boundary flag == geometry state via exactly one move_to_boundary, |p| unchanged; LinearPropagator '
         'and FieldUtils contracts.',
    note='max_substeps 1 (quick) / 2 (thorough), retry branch followed 3 times; two nonlinear queries of C08.1 may stay undecided in the quick budget (listed as '
         'not discharged); FieldDriver, steppers and helix accuracy are outside.',
    technique=TECH_B + ' (real-arithmetic mode)', design='3 (C08)')

CLAIMS['C04'] = dict(
    text='Exact arithmetic, every value of every random draw: Klein-Nishina and e+ annihilation conserve energy on every accepted path (2mc^2 for the positron), '
         'emit the secondary only above the model threshold and fail explicitly with nothing emitted when the secondary stack is exhausted; the shared ionisation '
         'final-state helper (Moller/Bhabha, muon/hadron ionisation) conserves energy and momentum for every projectile mass and knock-on energy <= W_max; the '
         'Moller/Bhabha energy samplers return a fraction in [cutoff/T, max]. Open known finding F9: in-flight e+ annihilation does not conserve momentum.',
    note='2 full interactors + 1 shared helper + 2 samplers of the ~15 models; rejection loops followed for 3 iterations; rotate is cut to its contract (C20.1) in the '
         'momentum obligations; momentum balance of Klein-Nishina, unit directions and energy positivity ranges are not decided in the quick tier.',
    technique=TECH_B + ' (real-arithmetic mode with lemma schemas, function cuts)', design='3 (C04)')

CLAIMS['C09'] = dict(
    text='Solid primitives: the real build() of Box, Sphere, Cylinder, Ellipsoid, Cone and Parallelepiped run against a recording surface builder emit signed '
         'surfaces whose intersection is exactly the documented solid, and their promised boxes are sound (open known findings F10, F11: Parallelepiped with '
         'alpha != 0 / theta != 0). Bounding-zone stage of geometry construction as an inductive step: for arbitrary valid zones consistent with arbitrary regions at an arbitrary probe '
         'point, calc_intersection / calc_union / negate of zones, the box utilities and get_exterior_bbox keep "known inside" inside and the region inside the '
         'exterior box (every bound finite or infinite, null boxes, per negation case); SurfaceClipper / NegatedSurfaceClipper create sound leaf boxes (exact '
         'arithmetic). Found and fixed defect F4 (difference returned the hole as interior); open known findings F5 (mixed-negation union swapped; reaches runtime '
         'point location) and F6 (sphere interior box too large).',
    note='Decided: surface emission of six primitives, the bounding-zone mechanism, the clippers. Prism / GenPrism / InfWedge / Involute / hollow and poly '
         'solids, CSG simplification, soft de-duplication, box '
         'transforms and UnitProto/InputBuilder/OrangeParams assembly (heap containers, variants) are outside the encodable reach; surface translation / '
         'transformation is under C12.6.',
    technique=TECH_B + ' (real-arithmetic mode with symbolic extended reals); ' + TECH_A + ' for the two volume-comparing zone cases', design='0.2 (C09)')

CLAIMS['C20'] = dict(
    text='Exact-arithmetic obligations for every value of every random draw: from_spherical / make_unit_vector / rotate contracts (open known finding F7: '
         'rotate mirrors the axis within 0.005 rad of +-z for rot_y < 0); CerenkovDndxCalculator is >= 0 and 0 below threshold; CerenkovGenerator returns an energy '
         'inside the table, a local direction on the cone cos(theta) = 1/(n(E) beta_mean) for the returned energy, a perpendicular polarisation of the same '
         'azimuth, both rotated about the unit step direction, a position on the step segment and a time >= the pre-step time; ScintillationGenerator returns a '
         'unit direction, a perpendicular normalised polarisation, a position on the segment and a time >= the pre-step time.',
    note='Compositional (rotate, make_unit_vector, sincospi, table lookup and dN/dx cut to recorders inside the generator obligations); rejection loops followed '
         'once (twice thorough); positivity of the scintillation wavelength, the photon-number sampling in the offload helpers and the general rotate identity '
         '(quick tier) are not decided.',
    technique=TECH_B + ' (real-arithmetic mode, function cuts on un-optimised IR)', design='0.2 (C20)')

CLAIMS['C03'] = dict(
    text='Point-location half only: BIHTraverser over small hand-laid trees with fully symbolic planes, axes, boxes, probe point and membership oracle returns a '
         'volume iff the point is inside some volume, returns only a volume that contains the point, and evaluates membership only inside bounding boxes '
         '(builder invariant assumed).',
    note='The navigation state machine (OrangeTrackView), SimpleUnitTracker distance search and boundary crossing, nested universes and rectangular arrays are '
         'not decided: hand-laying a complete OrangeParamsData with symbolic surfaces was not finished within the session. The property is therefore '
         'covered only in its "no volume is missed or invented when locating a point" mechanism; see also C10 (logic) and C12 (surface intersections).',
    technique=TECH_B + ' (real-arithmetic mode; comparisons only)', design='0.5 (C03)')

NOT_APPLICABLE = {
    'C07': 'quantifies over interleavings of host threads driving whole Steppers over shared_ptr/std::vector/OpenMP state: no installed engine '
           'models concurrent libstdc++ (CBMC C++ front end cannot parse it; own IR executors are single-threaded). See DESIGN.md C07.',
    'C19': 'JSON round trip runs through nlohmann::json (heap DOM, std::map, exceptions) and iostream number formatting/parsing: not a bounded leaf '
           'computation encodable by the IR translators; comparing two concrete round trips would not be solver-based. See DESIGN.md C19.',
}


def main():
    props = [json.loads(l)['id'] for l in open(os.path.join(V, 'properties.jsonl'))]
    checks = []
    na = []
    for p in props:
        if p in CLAIMS:
            c = CLAIMS[p]
            checks.append({
                'property_id': p,
                'quick_cmd': './check %s --tier quick' % p,
                'thorough_cmd': './check %s --tier thorough' % p,
                'evidence_file': 'evidence/%s.json' % p,
                'replay_cmd_template': './replay %s {path}' % p,
                'engine': 'verif-engines',
                'level_claimed': {'category': 'model_checking', 'text': c['text'], 'design_ref': 'DESIGN.md section ' + c['design']},
                'level_note': c['note'],
                'technique': c['technique'],
            })
        else:
            na.append({'property_id': p, 'reason': NOT_APPLICABLE.get(p, 'check not built yet in this session (design in DESIGN.md section 3); not claimed until its obligations conclude on the unchanged tree')})
    m = {
        'version': 1,
        'setup_cmd': './setup.sh',
        'hooks': {'guard': 'CELERITAS_VERIF', 'enable': 'no source hooks: harness TUs under /verif/harness include the real headers/.cc of /repo/src',
                  'baseline_off_cmd': 'ctest --test-dir /repo/_build -j8 --timeout 900', 'source_commits': [], 'add_only': True},
        'engines': [
            {'name': 'A: ir2c+CBMC', 'path': 'engine/ir2c.py', 'serves_properties': sorted(CLAIMS), 'kind_free_text': TECH_A},
            {'name': 'B: irsym+SMT', 'path': 'engine/irsym.py', 'serves_properties': sorted(CLAIMS), 'kind_free_text': TECH_B},
        ],
        'checks': checks,
        'not_applicable': na,
        'notes': 'All checks regenerate their encoding from /repo/src on every run (clang-14 -> LLVM IR -> C/SMT). Exit 0 = every obligation explored held '
                 '(inconclusive obligations are listed in the evidence, never counted as held); exit 1 + VIOLATION line only for a solver counterexample '
                 'that reproduces on a native g++ build of the same harness.',
    }
    with open(os.path.join(V, 'MANIFEST.json'), 'w') as f:
        json.dump(m, f, indent=1)
    print('MANIFEST: %d checks, %d not_applicable' % (len(checks), len(na)))


if __name__ == '__main__':
    main()
