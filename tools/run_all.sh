#!/bin/sh
# runs every claimed check (quick tier unless $1 = thorough) on the current /repo tree; prints one summary line each
cd "$(dirname "$0")/.."
TIER=${1:-quick}
rc=0
for p in $(python3 -c "import json;print(' '.join(c['property_id'] for c in json.load(open('MANIFEST.json'))['checks']))"); do
  ./check $p --tier $TIER > build/run_all_$p.log 2>&1; r=$?
  echo "$p exit=$r $(tail -1 build/run_all_$p.log)"
  grep -h "VIOLATION\|KNOWN-FINDING\|BROKEN" build/run_all_$p.log
  [ $r -ne 0 ] && rc=1
done
exit $rc
