#!/usr/bin/env python3-vt
"""Debug aid: find where CBMC's execution of generated C diverges from gcc's on one concrete input vector.
usage: tools/diverge.py <harness.cc[,DEF...]> <entry> <replay-file> [unwind]"""
import os, re, subprocess, sys
sys.path.insert(0, os.path.dirname(os.path.dirname(os.path.abspath(__file__))))
from engine import runner, ir2c
from engine.runner import Obl
h = sys.argv[1].split(',')
entry, replay = sys.argv[2], sys.argv[3]
unwind = sys.argv[4] if len(sys.argv) > 4 else '10'
o = Obl('dbg', h[0], entry, 'A', 'dbg', defines=tuple(h[1:]), opts={'trace': True})
runner.prepare([o.hkey], need_native=False)
cpath, info = runner.c_for(o)
rt = os.path.join(runner.VERIF, 'engine/rt')
subprocess.check_call(['gcc', '-std=gnu11', '-O0', '-w', '-DVERIF_TRACE_RECORD', '-I', rt, cpath, rt + '/verif_rt.c', '-o', '/tmp/diverge_bin', '-lm'])
out = subprocess.run(['/tmp/diverge_bin', entry, replay], capture_output=True, text=True).stdout
tr = [l.split() for l in out.split('\n') if l.startswith('TR ')]
vals = [int(x, 16) for x in open(replay).read().split()]
with open('/tmp/diverge_tab.c', 'w') as f:
    f.write('#include <stdint.h>\nconst uint64_t verif_fixed_in[] = {%s, 0};\n' % ', '.join('%dull' % v for v in vals))
    f.write('const uint64_t verif_tr_expected[] = {%s, 0};\n' % ', '.join('0x%sull' % t[2] for t in tr))
    f.write('const uint32_t verif_tr_ids[] = {%s, 0};\nuint32_t verif_tr_seq = 0;\n' % ', '.join(t[1] for t in tr))
print('gcc trace entries', len(tr))
cmd = ['cbmc', cpath, rt + '/verif_rt.c', '/tmp/diverge_tab.c', '-I', rt, '--function', entry, '--unwind', unwind, '--no-standard-checks', '--drop-unused-functions',
       '--no-built-in-assertions', '--object-bits', '12', '-DVERIF_FIXED_INPUTS', '-DVERIF_TRACE_CHECK']
p = subprocess.run(cmd, capture_output=True, text=True, timeout=3600)
first = {}
for i, t in enumerate(tr):
    first.setdefault(int(t[1]), i)
src = open(cpath).read().split('\n')
fails = []
for m in re.finditer(r'\[(\S+)\] line (\d+) (TRACE-DIVERGE \w+[ \w]*|VERIF-OBLIGATION[^\n]*): FAILURE', p.stdout):
    ln = int(m.group(2))
    k = re.search(r'VERIF_TR\((\d+),', src[ln - 1])
    fails.append((first.get(int(k.group(1)), 10**9) if k else 10**9, ln, m.group(3)))
fails.sort()
print('failing checks (execution order):')
for pos, ln, what in fails[:6]:
    print(pos, ln, what)
    print('   ' + '\n   '.join(x[:200] for x in src[max(0, ln - 4):ln]))
if not fails:
    print(p.stdout[-800:])
